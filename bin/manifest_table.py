# Table consumed by mkmanifest.py
HOOK_COMMITS = ["0900a80"]
ENGINES = [
    {"name": "sim", "path": "/verif/sim", "serves_properties": ["C01","C02","C03","C04","C05","C06","C07","C10","C11","C12","C15","C16","C17","C18","C19","C20"],
     "kind_free_text": "single Go test binary (go1.26.8): seeded choice tape, batch driver, shrinker, replay files, evidence writer; one workload+oracle per property under sim/checks; stub parties under sim/world"},
]
NOTES = ("Deterministic simulation with fault injection. One integer (VERIF_SEED) decides every run through the choice tape; "
         "violations are minimised and written as replay files under /verif/replays, re-executed in a fresh process before being reported. "
         "Known findings (genuine defects recorded, not repaired) are listed in /verif/known_findings.txt.")
NOT_APPLICABLE = [
    {"property_id": "C08", "reason": "pure predicate validate.TdxQuote(quote, options) over in-memory values: no keys, seam, clock, fault or schedule for a simulator to own; deciding it is input generation against a reference predicate, not simulation"},
    {"property_id": "C09", "reason": "pure codec abi.QuoteToProto / QuoteToAbiBytes over bytes: no nondeterminism or fault surface; truncated/size-corrupted device reads are injected for C10 and C15, the inverse/layout claim itself is input generation"},
    {"property_id": "C13", "reason": "pure decoder pcs.PckCertificateExtensions of one certificate, no signature is even checked: nothing for a simulated party, clock or schedule to act on"},
    {"property_id": "C14", "reason": "pure conversion validate.PolicyToOptions of one in-memory message: no seam, time, fault or interleaving"},
]

chk("C20", "fault_enumeration",
    "Complete enumeration of the Timeout x MaxRetryDelay x latency grid and, per cell, of every failure count k until the getter gives up (then failures forever), executed against the real RetryHTTPSGetter on a fake clock; the oracle reads the recorded attempt times. Adequate because the retry loop's behaviour depends only on (settings, failure sequence, latency), all of which are enumerated; thorough adds tape-chosen settings beyond the grid.",
    TB + " Cell Timeout=0&MaxRetryDelay=0 and MaxRetryDelay=0 past the deadline are not simulated (runtime select is unseeded).",
    "deterministic simulation on a fake clock (testing/synctest) with scripted getter faults; full grid enumeration",
    "DESIGN.md §4 C20", "sim")

chk("C01", "fault_enumeration",
    "Every single-bit flip of header, TD body, attestation key, QE report and QE auth data of seeded honest quotes must be rejected; every subset of broken links {body signature, hash binding, QE signature} is built with the other links valid using the simulator's own QE/PCK keys (incl. non-zero padding behind the binding digest); key/signature edge values, splices between two honest platforms, resizes, truncations, random mutations, high bits in the message form's 16-bit fields, and the same forgeries while the getter panics or fails at its k-th fetch; three option levels, both entry points. Enumeration is complete per world over the stated regions; worlds are seeded.",
    TB + " A random bit flip or foreign-key signature is assumed not to produce a valid ECDSA signature.",
    "deterministic simulation: simulated QE/PCK/CA keys build self-consistent forgeries; wire bit-flip fault enumeration", "DESIGN.md §4 C01", "sim")
chk("C02", "exploration",
    "Seeded search over (quote under PKI A, look-alike PKI B, a look-alike of the embedded Intel root) x (7 trusted pools, with Options.Now set and unset), single-element substitutions, in-name-of forgeries, non-CA intermediate, foreign chains not yet valid, 9 role-confusion chains signed by the trusted root, and ~30 root-of-trust configurations on a simulated disk incl. a bundle rotated in place; verdicts compared with 'chains through the quote's intermediate CA to a listed root and the leaf has the PCK role'.",
    TB, "deterministic simulation with a second look-alike CA hierarchy, role-confusion certificates and faulty bundle files", "DESIGN.md §4 C02", "sim")
chk("C03", "exploration",
    "A Byzantine PCS endpoint on the Getter seam: ~120 structured faults (incl. genuinely signed documents of the wrong kind with unsigned decoys) plus body/header bit flips, in two flavours so that substitution of signed values by unsigned content is observable; plus the default-anchor scenario (no pool, Intel's sample quote, collateral signed under a look-alike of the embedded root).",
    TB, "deterministic simulation of a Byzantine collateral endpoint with own JSON emitter; fault injection on the Getter seam", "DESIGN.md §4 C03", "sim")
chk("C04", "exploration",
    "Timelines (Intel publishes signed TCB Info, platform is patched, PCS serves a stale version) with boundary-biased level lists; every verdict and the level-reporting API are compared with an executable transcription of the property sentence. Hosted in the simulation because three signers must cooperate; the deciding element is the reference model.",
    TB + " The reference model world.EvalTcb is a transcription of the property statement.", "deterministic simulation of CA + TCB signer + platform timelines against a reference model", "DESIGN.md §4 C04", "sim")
chk("C05", "exploration",
    "One seeded world under ~60 CRL situations (revoked serial sets incl. near-misses, other-issuer coincidences that must be accepted, up to 1000 entries, revocation dates after the verifier's clock; CRL signers incl. look-alike issuer certificates in the unauthenticated header; endpoint outcomes; several distribution points; a long-lived options value switching collateral off) with revocation on; two distinct TCB-signing certificates make each signer's revocation attributable.",
    TB, "deterministic simulation of CRL issuers and CRL endpoints with fault injection", "DESIGN.md §4 C05", "sim")
chk("C06", "fault_enumeration",
    "Thirteen artifacts with thirteen distinct expiry instants (in a third of the runs both documents share one issuer chain); the complete grid {1 s before, at, 1 s after} x each of the five time-set fields x option levels, notBefore grid for path roles, skewed time sets, instants carried in tape-chosen time zones, and a monotone timeline through fresh and through one long-lived options value, compared both ways with 'accept iff each artifact is in date at its own field'.",
    TB, "deterministic simulation with a simulated clock driving Options.Now; boundary grid enumeration per world", "DESIGN.md §4 C06", "sim")
chk("C07", "exploration",
    "Timelines of signed QE identities (masks of any content, wrong lengths, level lists) and QE reports re-signed by the PCK key, compared with a transcription of the property sentence. Hosted, as C04.",
    TB + " The reference model world.EvalQE is a transcription of the property statement.", "deterministic simulation of TCB signer + QE timelines against a reference model", "DESIGN.md §4 C07", "sim")
chk("C11", "exploration",
    "The fault-free configuration of the world engine: seeded honest worlds accepted at three levels in raw / parsed / field-built form, recovery within one call after faulted verifications through a shared options value, and the repository's Intel sample quotes under the embedded root.",
    TB, "deterministic simulation, fault-free control configuration plus recovery after faults stop (bounded liveness: one call)", "DESIGN.md §4 C11", "sim")
chk("C12", "exploration",
    "Same world under all four option settings with a recording fetcher (monotonicity, no fetch without the option, CRL routes only with revocation, URL parameters), histories through one shared options value interleaved by the seeded scheduler at the Getter seam, and Options.Now unset on the fake clock with jumps between calls.",
    TB, "deterministic simulation: recording fetcher, call histories over shared state under a seeded scheduler, testing/synctest fake clock with jumps", "DESIGN.md §4 C12", "sim")
chk("C15", "fault_enumeration",
    "The complete finite grid of device behaviours (report ioctl x quote ioctl x status x OutLen x buffer content x report data) and all provider behaviours against a reference model of the two-step protocol.",
    TB, "deterministic simulation of a scripted faulty guest device / quote provider; full fault-grid enumeration", "DESIGN.md §4 C15", "sim")

chk("C10", "exploration",
    "Every public entry point driven from the seams while they misbehave: every truncation length, every boundary value of each size/type field (and pairs), every single structural mutation of the message found by protobuf reflection, arbitrary endpoint responses and correctly signed but structurally odd documents, arbitrary DER in CA-signed SGX extensions, odd chains, truncated/mutated event logs. Oracle: no panic, returns within a watchdog.",
    TB + " Coverage-guided fuzzing named in the quantifier is outside this technique.", "deterministic simulation with fault injection on device, wire, PCS, CA and firmware-log seams; crash/hang monitor", "DESIGN.md §4 C10", "sim")
chk("C16", "exploration",
    "The code under test is an AST-instrumented scratch copy of /repo (yield before every statement); 2-3 tasks share one quote, the raw buffer and option byte strings; the seeded scheduler preempts at tape-chosen yield points (PCT style, d<=3) and at Getter parks; at every context switch all bytes reachable from the shared values up to capacity, and the message's scalars and slice headers, must be unchanged, and verdicts must equal the solo verdicts. Single calls are snapshot-checked too and the writing statement is pinpointed.",
    TB + " Yield points are at statement granularity. The race detector is not the oracle (baton passing would hide races).", "deterministic simulation: seeded cooperative scheduler over AST-inserted yield points, no-write invariant at every context switch", "DESIGN.md §4 C16", "sim")
chk("C17", "exploration",
    "Histories of extend requests over the full alphabet against a model TSM on the configfsi.Client seam (records every operation, implements register extension), with and without an injected I/O error at the k-th client call; invalid requests must cause zero writes, valid ones exactly one extend of exactly the digest on the right entry, registers must equal the model's extend chain.",
    TB, "deterministic simulation of a model configfs-tsm with I/O fault injection; request histories against a reference model", "DESIGN.md §4 C17", "sim")
chk("C18", "fault_enumeration",
    "The sample CCEL replayed against quotes of a simulated platform that reports the sample RTMRs under a generated PKI: honest controls, each verification-gate and policy-gate fault, EVERY single-bit change of each RTMR in validly re-signed quotes, digest flips inside the log.",
    TB + " The firmware log content is fixed (repository sample).", "deterministic simulation: platform/CA stubs re-sign quotes with altered RTMRs; gate-fault and bit-flip enumeration", "DESIGN.md §4 C18", "sim")
chk("C19", "exploration",
    "The built tools/check binary, one process per run, against a simulated disk (config, quote, bundles), flags, and a simulated or unreachable network; the exit status must lie in the set the tool contract gives for the injected causes and stderr must show no Go panic.",
    TB + " Worlds are generated around the real wall clock (the tool has no time seam).", "deterministic simulation at process level: seeded disk/flag/network states for the real binary, reference model of the exit-code contract", "DESIGN.md §4 C19", "sim")
