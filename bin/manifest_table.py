# Table consumed by mkmanifest.py
HOOK_COMMITS = []
ENGINES = [
    {"name": "sim", "path": "/verif/sim", "serves_properties": ["C20"],
     "kind_free_text": "single Go test binary (go1.26.8): seeded choice tape, batch driver, shrinker, replay files, evidence writer; one workload+oracle per property under sim/checks; stub parties under sim/world"},
]
NOTES = ("Deterministic simulation with fault injection. One integer (VERIF_SEED) decides every run through the choice tape; "
         "violations are minimised and written as replay files under /verif/replays, re-executed in a fresh process before being reported. "
         "Known findings (genuine defects recorded, not repaired) are listed in /verif/known_findings.txt.")
NOT_APPLICABLE = [
    {"property_id": "C08", "reason": "pure predicate validate.TdxQuote(quote, options) over in-memory values: no keys, seam, clock, fault or schedule for a simulator to own; deciding it is input generation against a reference predicate, not simulation"},
    {"property_id": "C09", "reason": "pure codec abi.QuoteToProto / QuoteToAbiBytes over bytes: no nondeterminism or fault surface; truncated/size-corrupted device reads are injected for C10 and C15, the inverse/layout claim itself is input generation"},
    {"property_id": "C13", "reason": "pure decoder pcs.PckCertificateExtensions of one certificate, no signature is even checked: nothing for a simulated party, clock or schedule to act on"},
    {"property_id": "C14", "reason": "pure conversion validate.PolicyToOptions of one in-memory message: no seam, time, fault or interleaving"},
]

chk("C20", "fault_enumeration",
    "Complete enumeration of the Timeout x MaxRetryDelay x latency grid and, per cell, of every failure count k until the getter gives up (then failures forever), executed against the real RetryHTTPSGetter on a fake clock; the oracle reads the recorded attempt times. Adequate because the retry loop's behaviour depends only on (settings, failure sequence, latency), all of which are enumerated; thorough adds tape-chosen settings beyond the grid.",
    TB + " Cell Timeout=0&MaxRetryDelay=0 and MaxRetryDelay=0 past the deadline are not simulated (runtime select is unseeded).",
    "deterministic simulation on a fake clock (testing/synctest) with scripted getter faults; full grid enumeration",
    "DESIGN.md §4 C20", "sim")
