#!/usr/bin/env python3
"""Regenerates /verif/MANIFEST.json from the table below (single source of truth)."""
import json, os

V = "/verif"
checks = []

def chk(pid, level, text, note, technique, design_ref, engine):
    checks.append({
        "property_id": pid,
        "quick_cmd": f"bin/vcheck {pid} quick",
        "thorough_cmd": f"bin/vcheck {pid} thorough",
        "evidence_file": f"{V}/evidence/{pid}.json",
        "replay_cmd_template": "bin/vcheck replay {path}",
        "engine": engine,
        "level_claimed": {"category": level, "text": text, "design_ref": design_ref},
        "level_note": note,
        "technique": technique,
    })

TB = ("Trusted: Go standard library (crypto, x509, json, pem, asn1), protobuf runtime, testing/synctest fake clock (go1.26.8); "
      "the simulator's stub parties and reference model (transcribed from the property statements). "
      "Far sides of the seams (http.Get, real ioctl, real configfs) are not exercised.")

CHECKS = {}
exec(open(os.path.join(V, "bin", "manifest_table.py")).read())

manifest = {
    "version": 1,
    "setup_cmd": "bin/setup",
    "hooks": {
        "guard": "verif",
        "enable": "go build -tags verif (bin/vcheck builds the simulator and tools/check with -tags verif from /repo's working tree)",
        "baseline_off_cmd": "bin/baseline-off",
        "source_commits": HOOK_COMMITS,
        "add_only": True,
    },
    "engines": ENGINES,
    "checks": checks,
    "notes": NOTES,
    "not_applicable": NOT_APPLICABLE,
}
json.dump(manifest, open(os.path.join(V, "MANIFEST.json"), "w"), indent=1)
print("wrote MANIFEST.json with", len(checks), "checks")
