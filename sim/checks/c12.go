package checks

import (
	"crypto/x509"
	"fmt"
	"math/big"
	"strings"
	"sync"
	"testing"
	"testing/synctest"
	"time"

	"github.com/google/go-tdx-guest/verify"
	"verif/sim/core"
	"verif/sim/world"
)

// C12 — options gate the checks exactly; more checking never accepts more; verdicts do
// not depend on what an options value was used for before.

// staticFault applies one tape-chosen static fault to a world (or none) and returns its name.
// "Static" = it stays in place for all option levels, so the levels can be compared.
func staticFault(r *core.Run, w *world.World, raw *[]byte, pool **x509.CertPool, times *[5]time.Time) string {
	t := r.T
	far := func(y int) time.Time { return w.Epoch.AddDate(y, 0, 0) }
	tcbKey := ""
	for _, k := range core.SortedKeys(w.PCS.Tcb) {
		tcbKey = k
	}
	past := world.Window{NotBefore: w.Epoch.AddDate(-9, 0, 0), NotAfter: w.Epoch.AddDate(0, 0, -40)}
	future := world.Window{NotBefore: w.Epoch.AddDate(0, 0, 40), NotAfter: w.Epoch.AddDate(9, 0, 0)}
	caSpec := func() world.CertSpec {
		if w.CAID == "processor" {
			return w.A.ProcSpec
		}
		return w.A.PlatSpec
	}
	rebuild := func() { w.Build(false); *raw = w.Quote.Bytes() }
	switch k := t.Draw(37); k {
	// a service that answers a route only the second time it is asked (the first request of every verification
	// on that route is reset): met identically by every option level, whatever each level makes of it
	case 35, 36:
		route := []string{world.RouteTcb, world.RouteQE}[t.Draw(2)]
		if k == 36 {
			route = []string{world.RoutePckCrl, world.RouteRootCrl}[t.Draw(2)]
		}
		w.PCS.FailFirst = map[string]int{route: 1 + t.Draw(2)}
		r.Probe("route_answers_only_after_failed_requests")
		return "first-requests-fail:" + route
	// a response that carries, next to the genuine issuer-chain header, a second one whose name differs only
	// in letter case (a hand-written getter can produce that; net/http cannot) with another hierarchy's chain:
	// whatever the verifier makes of it, it makes the same of it every time
	case 33, 34:
		X := world.NewPKI(t, "X", w.Epoch, w.A)
		ep := w.PCS.Tcb[tcbKey]
		name := world.HdrTcbInfo
		if k == 34 {
			ep, name = w.PCS.QE, world.HdrQE
		}
		ep.Hdr[strings.ToLower(name)] = []string{world.IssuerChainHeader(X.Tcb, X.Root)}
		ep.Hdr[strings.ToUpper(name)] = []string{world.IssuerChainHeader(X.Tcb, X.Root)}
		return "decoy-issuer-chain-header-under-case-variant-name"
	// two Root CA CRL distribution points that serve different CRLs (one of them revoking the intermediate
	// or a collateral signer): whichever the verifier goes by, it is the same one whatever the network timing
	case 30, 31, 32:
		urls := []string{world.RootCRLURL, "https://crl-b.example/root.der"}
		if k == 31 {
			urls[0], urls[1] = urls[1], urls[0]
		}
		w.RootInQE = w.A.ReissueRootSpec(func(s *world.CertSpec) { s.CRLDP = urls })
		w.Publish()
		clean := w.RootCrlDER
		rv := w.RootCrl
		if k == 32 {
			rv.Revoked = append(append([]*big.Int(nil), rv.Revoked...), w.TcbSignerSerial())
		} else {
			rv.Revoked = append(append([]*big.Int(nil), rv.Revoked...), w.InterSerial())
		}
		w.PCS.ByURL[world.RootCRLURL] = &world.Endpoint{Body: world.MakeCRL(rv, w.A.Root, w.A.RootKey)}
		w.PCS.ByURL["https://crl-b.example/root.der"] = &world.Endpoint{Body: clean}
		return "two-distribution-points-serving-different-crls"
	case 0, 1, 2:
		return "none"
	// out-of-date copies of certificates as carried in the quote and in the issuer-chain headers, while
	// the pool holds the current root
	case 20:
		w.RootInQuote = w.A.ReissueRoot(past)
		rebuild()
		return "quote-root-copy-expired"
	case 21:
		w.RootInQuote = w.A.ReissueRoot(future)
		rebuild()
		return "quote-root-copy-not-yet-valid"
	case 22:
		if t.Bool() {
			w.RootInTcb = w.A.ReissueRoot(past)
		} else {
			w.RootInQE = w.A.ReissueRoot(past)
		}
		w.Publish()
		return "collateral-header-root-copy-expired"
	case 23:
		w.RootInCrl = w.A.ReissueRoot(past)
		w.Publish()
		return "pckcrl-header-root-copy-expired"
	case 24:
		sp := caSpec()
		sp.Win = []world.Window{past, future}[t.Draw(2)]
		w.CA = world.Issue(sp, w.CAKey, w.A.Root, w.A.RootKey)
		rebuild()
		return "quote-intermediate-out-of-date"
	case 25:
		w.P.PCKSp.Win = []world.Window{past, future}[t.Draw(2)]
		rebuild()
		return "leaf-out-of-date"
	case 26:
		sp := w.A.TcbSpec
		sp.Win = []world.Window{past, future}[t.Draw(2)]
		c := world.Issue(sp, w.A.TcbKey, w.A.Root, w.A.RootKey)
		if t.Bool() {
			w.TcbSignerInTcb = c
		} else {
			w.TcbSignerInQE = c
		}
		w.Publish()
		return "collateral-signer-out-of-date"
	case 27:
		sp := caSpec()
		sp.Win = past
		w.CAInCrl = world.Issue(sp, w.CAKey, w.A.Root, w.A.RootKey)
		w.Publish()
		return "pckcrl-header-issuer-expired"
	case 28:
		w.PckCrl.Next = w.Epoch.AddDate(0, 0, -40)
		w.PckCrl.This = w.Epoch.AddDate(0, 0, -70)
		w.Publish()
		return "pckcrl-stale"
	case 29:
		w.Tcb.Next = w.Epoch.AddDate(0, 0, -40)
		w.Publish()
		return "tcbinfo-stale"
	case 3:
		_, regs := w.Quote.BytesRegions()
		rg := regs[t.Draw(2)] // header or body
		(*raw)[rg.Off+t.Draw(rg.Len)] ^= 1 << t.Draw(8)
		return "wire-bitflip"
	case 4:
		w.PCS.Tcb[tcbKey] = &world.Endpoint{Err: fmt.Errorf("connection refused")}
		return "tcb-endpoint-down"
	case 5:
		w.PCS.QE.Body = t.Bytes(100)
		return "qe-endpoint-garbage"
	case 6:
		w.PCS.PckCrl[w.CAID] = &world.Endpoint{Err: fmt.Errorf("timeout")}
		return "pckcrl-endpoint-down"
	case 7:
		w.PCS.ByURL[world.RootCRLURL] = &world.Endpoint{Body: t.Bytes(40)}
		return "rootcrl-garbage"
	case 8:
		w.PckCrl.Revoked = append(w.PckCrl.Revoked, w.LeafSerial())
		w.Publish()
		return "leaf-revoked"
	case 9:
		w.RootCrl.Revoked = append(w.RootCrl.Revoked, w.TcbSignerSerial())
		w.Publish()
		return "tcb-signer-revoked"
	case 10:
		w.Tcb.Levels[w.LevelIdx].Status = "OutOfDate"
		w.Publish()
		return "tcb-level-out-of-date"
	case 11:
		for i := range w.QE.Levels {
			w.QE.Levels[i].Status = "SWHardeningNeeded"
		}
		w.Publish()
		return "qe-level-not-up-to-date"
	case 12:
		times[world.TTcb] = far(3)
		return "clock-tcbinfo-expired"
	case 13:
		times[world.TPck] = far(30)
		return "clock-pck-chain-expired"
	case 14:
		times[world.TPckCrl] = far(30)
		return "clock-pckcrl-expired"
	case 15:
		*pool = world.Pool(world.NewPKI(t, "X", w.Epoch, w.A).Root)
		return "foreign-pool"
	case 16:
		q := w.Quote.Clone()
		q.SignQE(world.NewKey(t))
		*raw = q.Bytes()
		return "qe-report-foreign-signature"
	case 17:
		if t.Bool() {
			// only the hash binding is broken: foreign attestation key, body re-signed with it
			fk := world.NewKey(t)
			q := w.Quote.Clone()
			copy(q.AK[:], fk.Pub64())
			q.SignBody(fk)
			*raw = q.Bytes()
			return "hash-binding-broken"
		}
		w.PCS.QE.Hdr = map[string][]string{}
		return "qe-header-missing"
	case 18:
		ep := w.PCS.Tcb[tcbKey]
		ep.Body = []byte(strings.Replace(string(ep.Body), `"signature":"`, `"signature":"00`, 1))
		return "tcb-signature-garbled"
	default:
		w.PCS.PckCrl[w.CAID].Body = world.MakeCRL(w.PckCrl, w.CA, world.NewKey(t))
		return "pckcrl-foreign-signer"
	}
}

func c12Run(r *core.Run) {
	switch r.Index % 4 {
	case 0, 1:
		c12Levels(r)
	case 2:
		c12History(r)
	default:
		c12Clock(r)
	}
}

// Part A: one world (honest or with one static fault) under the four option settings.
func c12Levels(r *core.Run) {
	t := r.T
	w := world.NewWorld(t, world.Cfg{AuthLen: 0}) // both CA kinds
	raw := w.Quote.Bytes()
	pool, times := w.Pool, w.Times
	fault := staticFault(r, w, &raw, &pool, &times)
	r.Eventf("world %s fault=%s", w.Describe(), fault)
	r.Fault("static:"+fault, fault != "none")
	if w.CAID == "processor" {
		r.Probe("processor_ca_world")
	}
	var acc [4]bool
	var logs [4][]world.Request
	for level := O0; level <= O3; level++ {
		w.PCS.Log = nil
		w.PCS.ResetTransient()
		o := verifyRaw(raw, mkOpts(level, w.PCS, pool, times))
		acc[level] = o.Accepted()
		logs[level] = append([]world.Request(nil), w.PCS.Log...)
		r.Eval()
		r.Eventf("level=%s -> %s fetches=%d", optNames[level], errClass(o), len(logs[level]))
	}
	r.State("fault=%s ca=%s acc=%v%v%v", fault, w.CAID, acc[O0], acc[O1], acc[O2])
	// the verdict depends on the fetched data, not on how long each fetch takes: the same world on networks
	// with other service times (and on an instant one) gives the same verdicts
	if w.PCS != nil {
		saved := w.PCS.Latency
		for _, prof := range []int{0, 1 + t.Draw(7), 1 + t.Draw(7)} {
			if prof == 0 {
				w.PCS.Latency = nil
			} else {
				w.PCS.Latency = world.LatencyProfile(prof)
			}
			for _, level := range []int{O1, O2} {
				w.PCS.ResetTransient()
				o := verifyRaw(raw, mkOpts(level, w.PCS, pool, times))
				r.Eval()
				if o.Accepted() != acc[level] {
					r.Violate("C12:verdict-depends-on-network-timing", "fault %s, level %s: %s on the world's network (latency profile %d) but %s on latency profile %d — same quote, options and served data", fault, optNames[level],
						tern(acc[level], "accepted", "rejected"), w.NetLat, tern(o.Accepted(), "accepted", "rejected"), prof)
				}
			}
		}
		w.PCS.Latency = saved
		r.Probe("same_world_on_other_network_timings")
		// ... nor on anything else that differs between two executions (iteration order of a map, say): the same
		// verification repeated gives the same verdict every time
		reps := 4
		if strings.HasPrefix(fault, "decoy-") {
			reps = 48
		}
		w.PCS.Latency = nil
		for i := 0; i < reps; i++ {
			level := O1 + i%2
			w.PCS.ResetTransient()
			o := verifyRaw(raw, mkOpts(level, w.PCS, pool, times))
			r.Eval()
			if o.Accepted() != acc[level] {
				r.Violate("C12:verdict-not-a-function-of-inputs", "fault %s, level %s: repetition %d of the very same verification (fresh options, same quote, same served data) was %s, the first one %s", fault, optNames[level], i,
					tern(o.Accepted(), "accepted", "rejected"), tern(acc[level], "accepted", "rejected"))
				break
			}
		}
		w.PCS.Latency = saved
	}
	if acc[O2] && !acc[O1] {
		r.Violate("C12:more-checks-accept-more:O2>O1", "fault %s: accepted with collateral+revocation but rejected with collateral alone", fault)
	}
	if acc[O1] && !acc[O0] {
		r.Violate("C12:more-checks-accept-more:O1>O0", "fault %s: accepted with collateral but rejected with signature and chain checking alone", fault)
	}
	if acc[O3] {
		r.Violate("C12:revocation-without-collateral-accepted", "fault %s: CheckRevocations without GetCollateral accepted", fault)
	}
	for _, level := range []int{O0, O3} {
		if n := len(logs[level]); n != 0 {
			r.Violate("C12:fetch-without-collateral-option", "level %s: %d fetches although collateral checking is off (first: %s)", optNames[level], n, logs[level][0].URL)
		}
	}
	for _, rq := range logs[O1] {
		if rq.Route == world.RoutePckCrl || rq.Route == world.RouteRootCrl || strings.Contains(strings.ToLower(rq.URL), "crl") {
			r.Violate("C12:crl-fetched-without-revocation-option", "collateral level fetched %s although revocation checking is off", rq.URL)
		}
	}
	if fault == "none" && w.PCS != nil && acc[O2] {
		// (only worlds whose honest quote is accepted with revocation checking — Processor-CA worlds are not)
		c12Overlap(r, w, raw, pool, times)
	}
	wantFmspc := fmt.Sprintf("%x", w.P.Ext.FMSPC[:])
	for _, level := range []int{O1, O2} {
		for _, rq := range logs[level] {
			switch rq.Route {
			case world.RouteTcb:
				r.Probe("tcb_url_checked")
				if !strings.EqualFold(rq.Fmspc, wantFmspc) {
					r.Violate("C12:tcb-url-wrong-fmspc", "TCB Info requested for fmspc=%q, the PCK certificate carries %s", rq.Fmspc, wantFmspc)
				}
			case world.RoutePckCrl:
				r.Probe("pckcrl_url_checked_" + w.CAID)
				if rq.CA != w.CAID {
					r.Violate("C12:pckcrl-url-wrong-ca", "PCK CRL requested for ca=%q, the leaf was issued by the %s CA", rq.CA, w.CAID)
				}
			case world.RouteOther:
				r.Violate("C12:unexpected-url", "unexpected URL requested: %s", rq.URL)
			}
		}
	}
	r.Sample("world %s with static fault %q verified at 4 option settings: accept=%v, fetches per level=%d/%d/%d/%d", w.Describe(), fault, acc, len(logs[0]), len(logs[1]), len(logs[2]), len(logs[3]))
}

type c12Call struct {
	w     *world.World
	raw   []byte
	level int
	pool  *x509.CertPool
	times [5]time.Time
	name  string
	pre   func() // a change of what the PCS serves, made before this call
	post  func() // the end of a transient network fault, after this call
	lost  bool   // a document this call's level needs is not obtained intact during it
}

func (c *c12Call) apply(o *verify.Options) {
	o.GetCollateral = c.level == O1 || c.level == O2
	o.CheckRevocations = c.level == O2 || c.level == O3
	o.Getter = c.w.PCS
	o.TrustedRoots = c.pool
	o.Now = timeSet(c.times)
}

// Part B: a short history of verifications through ONE options value; each call is
// compared with the same call on a fresh options value.  Two such histories are
// interleaved by the seeded scheduler at the Getter seam.
func c12History(r *core.Run) {
	t := r.T
	mkHistory := func(tag string) []c12Call {
		n := 2 + t.Draw(5)
		var worlds []*world.World
		for i := 0; i < 1+t.Draw(3); i++ {
			worlds = append(worlds, world.NewWorld(t, world.Cfg{AuthLen: 0, NetLat: -1}))
		}
		var calls []c12Call
		for i := 0; i < n; i++ {
			w := worlds[t.Draw(len(worlds))]
			raw := w.Quote.Bytes()
			pool, times := w.Pool, w.Times
			fault := "none"
			if t.Chance(1, 3) {
				// per-call fault on a private copy of the world's server state is not possible for
				// static faults that republish; restrict to the ones that do not touch the world
				switch t.Draw(5) {
				case 3:
					// before the collateral signing certificate existed (inside the root's and the PCK chain's windows)
					early := w.Epoch.AddDate(-5, 0, -100)
					times[world.TTcb], times[world.TQE] = early, early
					fault = "clock-before-collateral-signer"
				case 4:
					// another caller's pool: a look-alike hierarchy only
					pool = world.Pool(world.NewPKI(t, "X", w.Epoch, w.A).Root)
					fault = "lookalike-pool"
				case 0:
					raw[t.Draw(600)] ^= 1 << t.Draw(8)
					fault = "wire-bitflip"
				case 1:
					times[t.Draw(5)] = w.Epoch.AddDate(30, 0, 0)
					fault = "clock-far-future"
				case 2:
					pool = x509.NewCertPool()
					fault = "empty-pool"
				}
			}
			level := t.Draw(4)
			// between two calls the PCS may start serving something else for this platform (a new CRL that
			// revokes the leaf, a TCB Info whose matching level is no longer UpToDate, or the original again):
			// every verification is judged on what is served when it runs
			var pre, post func()
			needed := false
			if t.Chance(1, 3) {
				switch t.Draw(3) {
				case 0:
					pre = func() { w.PckCrl.Revoked = append(w.PckCrl.Revoked, w.LeafSerial()); w.Publish() }
					fault += "+pcs-now-revokes-leaf"
				case 1:
					pre = func() { w.Tcb.Levels[w.LevelIdx].Status = "OutOfDate"; w.Publish() }
					fault += "+pcs-now-out-of-date"
				case 2:
					ls := w.LeafSerial()
					pre = func() {
						var keep []*big.Int
						for _, x := range w.PckCrl.Revoked {
							if x.Cmp(ls) != 0 {
								keep = append(keep, x)
							}
						}
						w.PckCrl.Revoked = keep
						w.Tcb.Levels[w.LevelIdx].Status = "UpToDate"
						w.Publish()
					}
					fault += "+pcs-serves-original-again"
				}
				r.Probe("served_data_changes_between_calls")
			} else if t.Chance(1, 3) {
				// a transient network fault: for the duration of this one verification a route is down, answers
				// with half a body, with an empty 200, or without its headers; afterwards the service is back.  A
				// document the level needs was not obtained intact, so this verification rejects, and nothing
				// of the failure is remembered by the next one.
				routes := []string{world.RouteTcb, world.RouteQE, world.RoutePckCrl, world.RouteRootCrl}
				route := routes[t.Draw(len(routes))]
				kind := t.Draw(4)
				if route == world.RouteRootCrl && kind == 3 {
					kind = 0 // a root CRL answer needs no header
				}
				kinds := []string{"down", "half-body", "empty-200", "headers-lost"}
				pre = func() {
					w.Publish()
					s := w.PCS
					hit := func(ep *world.Endpoint) *world.Endpoint {
						switch kind {
						case 0:
							return &world.Endpoint{Err: fmt.Errorf("read tcp: connection reset by peer")}
						case 1:
							c := ep.Clone()
							c.Body = c.Body[:len(c.Body)/2]
							return c
						case 2:
							c := ep.Clone()
							c.Body = []byte{}
							return c
						}
						c := ep.Clone()
						c.Hdr = map[string][]string{"Content-Type": {"application/json"}}
						return c
					}
					switch route {
					case world.RouteTcb:
						for _, k := range core.SortedKeys(s.Tcb) {
							s.Tcb[k] = hit(s.Tcb[k])
						}
					case world.RouteQE:
						s.QE = hit(s.QE)
					case world.RoutePckCrl:
						s.PckCrl[w.CAID] = hit(s.PckCrl[w.CAID])
					default:
						for _, k := range core.SortedKeys(s.ByURL) {
							s.ByURL[k] = hit(s.ByURL[k])
						}
					}
				}
				post = func() { w.Publish() }
				needed = ((route == world.RouteTcb || route == world.RouteQE) && (level == O1 || level == O2)) ||
					((route == world.RoutePckCrl || route == world.RouteRootCrl) && (level == O2 || level == O3))
				fault += "+transient:" + route + "-" + kinds[kind]
				r.Probe("transient_network_fault_during_one_call")
			}
			calls = append(calls, c12Call{w: w, raw: raw, level: level, pool: pool, times: times, pre: pre, post: post, lost: needed, name: fmt.Sprintf("%s%d:%s@%s/%s", tag, i, w.CAID, optNames[level], fault)})
		}
		return calls
	}
	hA, hB := mkHistory("A"), mkHistory("B")
	sched := core.NewSched()
	changes := map[int]bool{}
	for i, n := 0, t.Draw(4); i < n; i++ {
		changes[t.Draw(40)] = true
	}
	sched.Pick = func(step, cur int, runnable []int, site string) int {
		if cur >= 0 && !changes[step] {
			return cur
		}
		for _, id := range runnable {
			if id != cur {
				return id
			}
		}
		return runnable[0]
	}
	switches := 0
	sched.OnSwitch = func(step, from, to int, site string) { switches++ }
	type res struct{ shared, fresh []bool }
	results := [2]res{}
	for hi, h := range [][]c12Call{hA, hB} {
		hi, h := hi, h
		sched.Go(fmt.Sprintf("history%d", hi), func() {
			shared := &verify.Options{}
			for ci := range h {
				c := &h[ci]
				if c.pre != nil {
					c.pre()
				}
				c.w.PCS.OnFetch = func(world.Request) { sched.Yield("getter") }
				c.apply(shared)
				o1 := verifyRaw(c.raw, shared)
				fresh := &verify.Options{}
				c.apply(fresh)
				o2 := verifyRaw(c.raw, fresh)
				c.w.PCS.OnFetch = nil
				if c.post != nil {
					c.post()
				}
				results[hi].shared = append(results[hi].shared, o1.Accepted())
				results[hi].fresh = append(results[hi].fresh, o2.Accepted())
				sched.Yield("between-calls")
			}
		})
	}
	sched.Run()
	if sched.Foreign > 0 {
		// goroutines started by the code under test ran through yield points outside the scheduler's control
		r.Count("yield_points_reached_by_foreign_goroutines(schedule_not_exactly_replayable)", int64(sched.Foreign))
	}
	for hi, h := range [][]c12Call{hA, hB} {
		for ci, c := range h {
			r.Eval()
			s, f := results[hi].shared[ci], results[hi].fresh[ci]
			r.Eventf("history %d call %d %s shared=%v fresh=%v", hi, ci, c.name, s, f)
			if c.lost && (s || f) {
				r.Violate("C12:accepted-without-needed-document", "history %d, call %d (%s): accepted (re-used options value %v, fresh one %v) although a document this level needs was not obtained intact", hi, ci, c.name, s, f)
			}
			if s != f {
				r.Violate("C12:shared-options-differs", "history %d, call %d (%s): verdict through the re-used options value = %v, through a fresh one = %v", hi, ci, c.name, s, f)
			}
		}
		r.State("history len=%d switches=%d", len(h), switches)
	}
	r.Fault("sched:switch_at_getter", switches > 1)
	r.Probe("shared_options_history")
	r.Sample("two histories (%d and %d verifications of quotes from up to 3 worlds, option flags / pool / times edited between calls) through one options value each, interleaved at the Getter seam (%d switches); every verdict equals the fresh-options verdict", len(hA), len(hB), switches)
}

// Part C: Options.Now == nil, on the fake clock, with clock jumps between calls.
func c12Clock(r *core.Run) {
	t := r.T
	bubbleEpoch := time.Date(2000, 1, 1, 0, 0, 0, 0, time.UTC)
	w := world.NewWorld(t, world.Cfg{AuthLen: 0, Processor: 1, Epoch: bubbleEpoch.AddDate(0, 0, 3)})
	raw := w.Quote.Bytes()
	// draw the jumps before entering the bubble
	n := 2 + t.Draw(4)
	jumps := make([]time.Duration, n)
	levels := make([]int, n)
	for i := range jumps {
		switch t.Draw(4) {
		case 0:
			jumps[i] = time.Duration(1+t.Draw(48)) * time.Hour
		case 1:
			jumps[i] = time.Duration(20+t.Draw(20)) * 24 * time.Hour // beyond the documents' nextUpdate
		case 2:
			jumps[i] = time.Duration(7+t.Draw(30)) * 365 * 24 * time.Hour // beyond certificate expiry
		default:
			jumps[i] = time.Duration(t.Draw(3600)) * time.Second
		}
		levels[i] = t.Draw(3)
	}
	type obs struct {
		at            time.Time
		shared, fresh bool
		se, fe        string
	}
	var out []obs
	synctest.Test(r.TB, func(tb *testing.T) {
		shared := &verify.Options{Getter: w.PCS, TrustedRoots: w.Pool}
		for i := 0; i < n; i++ {
			time.Sleep(jumps[i]) // the fake clock jumps
			set := func(o *verify.Options) {
				o.GetCollateral = levels[i] >= O1
				o.CheckRevocations = levels[i] == O2
			}
			set(shared)
			o1 := verifyRaw(raw, shared)
			fresh := &verify.Options{Getter: w.PCS, TrustedRoots: w.Pool}
			set(fresh)
			o2 := verifyRaw(raw, fresh)
			out = append(out, obs{time.Now(), o1.Accepted(), o2.Accepted(), errClass(o1), errClass(o2)})
		}
	})
	expiredSeen := false
	for i, o := range out {
		r.Eval()
		r.Eventf("call %d at %s level=%s shared=%s fresh=%s", i, o.at.Format(time.RFC3339), optNames[levels[i]], o.se, o.fe)
		if !o.fresh {
			expiredSeen = true
		}
		if o.shared != o.fresh {
			r.Violate("C12:shared-options-differs:default-time", "call %d at simulated %s (level %s): re-used options value (Now unset) says %v [%s], a fresh one says %v [%s]", i, o.at.Format(time.RFC3339), optNames[levels[i]], o.shared, o.se, o.fresh, o.fe)
		}
	}
	if len(out) > 0 {
		r.SimTime += out[len(out)-1].at.Sub(bubbleEpoch)
	}
	if expiredSeen {
		r.Probe("expiry_between_calls_under_default_time")
	}
	r.Fault("clock:jump_between_calls", true)
	r.State("clock-history n=%d expired=%v", n, expiredSeen)
}

func init() {
	register(&core.Check{
		ID:        "C12",
		Isolate:   true,
		RetrySafe: true,
		Level:     "exploration",
		Rule: "three kinds of runs. (A, half of the runs) one seeded world (platform or processor CA), honest or with one of 29 static faults (wire, endpoint, revocation, TCB status, clock, pool, signature; out-of-date copies of the root / intermediate / leaf / collateral signer / CRL issuer as carried in the quote and in issuer-chain headers while the pool holds the current root; stale CRL or TCB Info; two CRL distribution points serving different CRLs; a decoy issuer-chain header under a case-variant name), verified under all four option settings with a recording fetcher: monotonicity acc(O2)=>acc(O1)=>acc(O0), O3 rejects, the same verdicts on networks with other (simulated) service times per URL and on 4-48 plain repetitions, zero fetches without the collateral option, CRL routes only with revocation, fmspc / ca query parameters equal to what the CA put in the leaf. (B) two histories of 2-6 verifications (quotes of up to 3 worlds, flags / pool / times edited between calls, per-call wire / clock / pool faults, the PCS starting to serve other data for the platform between calls) each through ONE options value, interleaved by the seeded scheduler at the Getter seam; every verdict compared with a fresh options value. (C) the same with Options.Now unset on the testing/synctest fake clock with jumps of hours / weeks / decades between calls. " +
			"distinct = (fault, CA kind, verdict vector) resp. (history length, switches) resp. (calls, expiry seen)",
		Assumptions: []string{"number, order and repetition of fetches are not judged, only which routes may be contacted and their parameters"},
		RealStub:    map[string]string{"verify.RawTdxQuote": "real", "pcs URL builders": "real (checked by the stub's own URL parser)", "Intel PCS": "stub (recording)", "clock": "Options.Now from the simulated clock; part C: testing/synctest fake clock read by the library's time.Now"},
		Runs: func(tier string) int {
			if tier == "thorough" {
				return 30000
			}
			return 800
		},
		Run:         c12Run,
		MustProbe:   []string{"processor_ca_world", "tcb_url_checked", "pckcrl_url_checked_platform", "pckcrl_url_checked_processor", "shared_options_history", "expiry_between_calls_under_default_time", "same_world_on_other_network_timings", "served_data_changes_between_calls", "two_callers_with_their_own_getters_overlapping"},
		SimTimeNote: "part C: fake-clock time covered by the clock-jump histories",
	})
}

// c12Overlap: two callers verify the same quote at overlapping (simulated) times, each with its OWN getter; the
// two getters answer the same URLs with different data (one serves a PCK CRL that revokes the leaf).  Each
// verdict depends on the data ITS getter served, not on what the other caller happened to be fetching.
func c12Overlap(r *core.Run, w *world.World, raw []byte, pool *x509.CertPool, times [5]time.Time) {
	t := r.T
	honest := w.PCS
	save := w.PckCrl.Revoked
	w.PckCrl.Revoked = append(append([]*big.Int(nil), save...), w.LeafSerial())
	w.Publish()
	revoking := w.PCS
	w.PckCrl.Revoked = save
	w.Publish()
	w.PCS = honest
	slowIsHonest := t.Bool()
	slow, fast := honest, revoking
	if !slowIsHonest {
		slow, fast = revoking, honest
	}
	slow.Latency = func(world.Request, int) time.Duration { return 700 * time.Millisecond }
	fast.Latency = func(world.Request, int) time.Duration { return time.Millisecond }
	startFast := time.Duration(50+t.Draw(2500)) * time.Millisecond
	var oSlow, oFast core.Outcome
	leak := ""
	func() {
		defer func() {
			if p := recover(); p != nil {
				leak = fmt.Sprint(p)
			}
		}()
		synctest.Test(r.TB, func(*testing.T) {
			slow.InBubble, fast.InBubble = true, true
			defer func() { slow.InBubble, fast.InBubble = false, false }()
			var wg sync.WaitGroup
			wg.Add(2)
			go func() {
				defer wg.Done()
				oSlow = core.Call(func() error { return verify.RawTdxQuote(raw, mkOpts(O2, slow, pool, times)) })
			}()
			go func() {
				defer wg.Done()
				time.Sleep(startFast)
				oFast = core.Call(func() error { return verify.RawTdxQuote(raw, mkOpts(O2, fast, pool, times)) })
			}()
			wg.Wait()
		})
	}()
	slow.InBubble, fast.InBubble = false, false
	honest.Latency = nil
	if w.NetLat > 0 {
		honest.Latency = world.LatencyProfile(w.NetLat)
	}
	r.Eval()
	r.Probe("two_callers_with_their_own_getters_overlapping")
	r.Eventf("overlap: slow getter serves %s, fast one (from %v) the other -> slow:%s fast:%s", tern(slowIsHonest, "the honest CRL", "the revoking CRL"), startFast, errClass(oSlow), errClass(oFast))
	if leak != "" {
		r.Violate("C12:overlap:goroutines-left-blocked", "after two overlapping verifications goroutines were still blocked: %s", leak)
		return
	}
	accHonest, accRevoking := oSlow.Accepted(), oFast.Accepted()
	if !slowIsHonest {
		accHonest, accRevoking = oFast.Accepted(), oSlow.Accepted()
	}
	if accRevoking {
		r.Violate("C12:verdict-depends-on-another-callers-fetch", "two callers verified the same quote at overlapping times with their own getters; the one whose getter serves a PCK CRL revoking the leaf ACCEPTED (it was judged on what the other caller fetched)")
	}
	if !accHonest {
		r.Violate("C12:verdict-depends-on-another-callers-fetch", "two callers verified the same quote at overlapping times with their own getters; the one whose getter serves the honest collateral REJECTED: %s", tern(slowIsHonest, oSlow.ErrText(), oFast.ErrText()))
	}
}
