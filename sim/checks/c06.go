package checks

import (
	"fmt"
	"sort"
	"strings"
	"time"

	"verif/sim/core"
	"verif/sim/world"
)

// C06 — nothing expired is accepted; each artifact is judged at its own configured time.

type c06Artifact struct {
	name     string
	field    int // governing TimeSet entry
	notAfter time.Time
	// notBefore is judged only for the roles on an x509-validated path
	notBefore time.Time
	pathRole  bool
	minLevel  int // first option level at which the artifact is looked at
}

var fieldNames = []string{"PckCertChain", "TcbInfo", "QeIdentity", "PckCrl", "RootCaCrl"}

// c06Model: accept iff every artifact in play at the level is in date at its own field.
func c06Model(arts []c06Artifact, pool world.Window, level int, ts [5]time.Time) (bool, string) {
	for _, a := range arts {
		if level < a.minLevel {
			continue
		}
		t := ts[a.field]
		if t.After(a.notAfter) {
			return false, a.name + " expired"
		}
		if a.pathRole && t.Before(a.notBefore) {
			return false, a.name + " not yet valid"
		}
	}
	// the pool root is on the validated paths of the leaf and of both collateral signers
	fields := []int{world.TPck}
	if level >= O1 {
		fields = append(fields, world.TTcb, world.TQE)
	}
	for _, f := range fields {
		if !pool.Contains(ts[f]) {
			return false, "trusted root outside its validity at " + fieldNames[f]
		}
	}
	return true, ""
}

func c06Run(r *core.Run) {
	t := r.T
	w := world.NewWorld(t, world.Cfg{Processor: 1, AuthLen: 0})
	T0 := w.Epoch.Truncate(time.Second)
	// thirteen artifacts, thirteen distinct expiry instants more than a year apart
	perm := t.Perm(13)
	var expT [13]time.Time
	for i := range expT {
		expT[i] = T0.Add(time.Duration(perm[i]+1) * 400 * 24 * time.Hour).Add(time.Duration(t.Draw(86400)) * time.Second)
	}
	exp := func(i int) time.Time { return expT[i] }
	nbPerm := t.Perm(4)
	var nbT [4]time.Time
	for i := range nbT {
		nbT[i] = T0.Add(-time.Duration(nbPerm[i]+1) * 300 * 24 * time.Hour).Add(-time.Duration(t.Draw(86400)) * time.Second)
	}
	nb := func(i int) time.Time { return nbT[i] }
	early := T0.AddDate(-15, 0, 0)
	poolWin := world.Window{NotBefore: T0.AddDate(-20, 0, 0), NotAfter: T0.AddDate(40, 0, 0)}
	if r.Index%4 == 3 {
		// the trusted root itself is the first thing to expire, long before any copy of it carried in the quote
		// or in a header (a root re-issued with a longer life has reached the quotes, not yet the caller's pool)
		poolWin.NotAfter = T0.AddDate(0, 0, 100+t.Draw(200))
		r.Probe("trusted_root_expires_before_its_carried_copies")
	}

	A := w.A
	A.RootSpec.Win = poolWin
	A.Rebuild()
	w.Pool = world.Pool(A.Root)
	plat := func(win world.Window) *world.Cert {
		s := A.PlatSpec
		s.Win = win
		return world.Issue(s, A.PlatKey, A.Root, A.RootKey)
	}
	tcbs := func(win world.Window) *world.Cert {
		s := A.TcbSpec
		s.Win = win
		return world.Issue(s, A.TcbKey, A.Root, A.RootKey)
	}

	arts := make([]c06Artifact, 13)
	// PCK chain
	w.P.PCKSp.Win = world.Window{NotBefore: nb(0), NotAfter: exp(0)}
	arts[0] = c06Artifact{"pck-leaf", world.TPck, exp(0), nb(0), true, O0}
	w.CA = plat(world.Window{NotBefore: nb(1), NotAfter: exp(1)})
	arts[1] = c06Artifact{"pck-intermediate", world.TPck, w.CA.X.NotAfter, w.CA.X.NotBefore, true, O0}
	w.RootInQuote = A.ReissueRoot(world.Window{NotBefore: early, NotAfter: exp(2)})
	arts[2] = c06Artifact{"pck-root-copy", world.TPck, w.RootInQuote.X.NotAfter, early, false, O0}
	// TCB Info
	w.Tcb.Next = exp(3)
	if t.Bool() { // RFC 3339 allows a fraction of a second in nextUpdate
		w.Tcb.Next = w.Tcb.Next.Add(time.Duration(1+t.Draw(999)) * time.Millisecond)
	}
	w.Tcb.Issue = T0.AddDate(0, 0, -30)
	arts[3] = c06Artifact{"tcbinfo-nextUpdate", world.TTcb, w.Tcb.Next, early, false, O1}
	w.TcbSignerInTcb = tcbs(world.Window{NotBefore: nb(2), NotAfter: exp(4)})
	arts[4] = c06Artifact{"tcbinfo-signer", world.TTcb, w.TcbSignerInTcb.X.NotAfter, w.TcbSignerInTcb.X.NotBefore, true, O1}
	w.RootInTcb = A.ReissueRoot(world.Window{NotBefore: early, NotAfter: exp(5)})
	arts[5] = c06Artifact{"tcbinfo-root-copy", world.TTcb, w.RootInTcb.X.NotAfter, early, false, O1}
	// QE Identity
	w.QE.Next = exp(6)
	if t.Bool() {
		w.QE.Next = w.QE.Next.Add(time.Duration(1+t.Draw(999)) * time.Millisecond)
	}
	w.QE.Issue = T0.AddDate(0, 0, -30)
	arts[6] = c06Artifact{"qeidentity-nextUpdate", world.TQE, w.QE.Next, early, false, O1}
	w.TcbSignerInQE = tcbs(world.Window{NotBefore: nb(3), NotAfter: exp(7)})
	arts[7] = c06Artifact{"qeidentity-signer", world.TQE, w.TcbSignerInQE.X.NotAfter, w.TcbSignerInQE.X.NotBefore, true, O1}
	w.RootInQE = A.ReissueRoot(world.Window{NotBefore: early, NotAfter: exp(8)})
	arts[8] = c06Artifact{"qeidentity-root-copy", world.TQE, w.RootInQE.X.NotAfter, early, false, O1}
	if r.Index%3 == 1 {
		// as the real PCS does: both documents carry the very same signer and root certificates;
		// each document's copy is still judged at its own time
		w.TcbSignerInQE, w.RootInQE = w.TcbSignerInTcb, w.RootInTcb
		arts[7] = c06Artifact{"qeidentity-signer(shared-with-tcbinfo)", world.TQE, w.TcbSignerInQE.X.NotAfter, w.TcbSignerInQE.X.NotBefore, true, O1}
		arts[8] = c06Artifact{"qeidentity-root-copy(shared-with-tcbinfo)", world.TQE, w.RootInQE.X.NotAfter, early, false, O1}
		r.Probe("documents_share_one_issuer_chain")
	}
	// PCK CRL
	w.PckCrl.This, w.PckCrl.Next = T0.AddDate(0, 0, -30), exp(9)
	arts[9] = c06Artifact{"pckcrl-nextUpdate", world.TPckCrl, w.PckCrl.Next, early, false, O2}
	w.CAInCrl = plat(world.Window{NotBefore: early, NotAfter: exp(10)})
	arts[10] = c06Artifact{"pckcrl-signer", world.TPckCrl, w.CAInCrl.X.NotAfter, early, false, O2}
	w.RootInCrl = A.ReissueRoot(world.Window{NotBefore: early, NotAfter: exp(11)})
	arts[11] = c06Artifact{"pckcrl-root-copy", world.TPckCrl, w.RootInCrl.X.NotAfter, early, false, O2}
	// Root CA CRL
	w.RootCrl.This, w.RootCrl.Next = T0.AddDate(0, 0, -30), exp(12)
	arts[12] = c06Artifact{"rootcrl-nextUpdate", world.TRootCrl, w.RootCrl.Next, early, false, O2}
	// issue dates are not part of the claim, but a freshness test written in terms of them must not let an
	// expired artifact through: in a third of the worlds the documents carry a legal but unusual issueDate
	// (absent, null, year 1, 1700, 9999) and the CRLs a thisUpdate centuries back.  In those worlds only
	// acceptances are judged (a verifier may have its own opinion on such issue dates).
	oddIssue := ""
	if t.Chance(1, 3) {
		oddIssue = []string{"-", "null", `"0001-01-01T00:00:00Z"`, `"1700-01-01T00:00:00Z"`, `"9999-12-31T23:59:59Z"`}[t.Draw(5)]
		w.Tcb.IssueRaw, w.QE.IssueRaw = oddIssue, oddIssue
		if t.Bool() {
			old := time.Date(1700, 1, 1, 0, 0, 0, 0, time.UTC)
			w.PckCrl.This, w.RootCrl.This = old, old
		}
		r.Probe("unusual_issue_date")
	}
	w.CAKey = A.PlatKey
	w.Build(false)
	// the artifacts carry whole-second times; read them back from what was actually issued
	arts[0].notAfter, arts[0].notBefore = w.P.PCK.X.NotAfter, w.P.PCK.X.NotBefore
	raw := w.Quote.Bytes()
	r.Eventf("world %s T0=%s", w.Describe(), T0.Format(time.RFC3339))

	base := [5]time.Time{T0, T0, T0, T0, T0}
	// The caller may carry the five instants in any location: the same instants expressed in
	// tape-chosen fixed zones (UTC-12 .. UTC+14) must give the same verdict.
	zoneOffs := make([]int, 64)
	for i := range zoneOffs {
		zoneOffs[i] = (t.Draw(27) - 12) * 3600
		if t.Chance(1, 3) {
			zoneOffs[i] = 0
		}
	}
	zi := 0
	inZones := func(ts [5]time.Time) [5]time.Time {
		var out [5]time.Time
		for f := range ts {
			off := zoneOffs[zi%len(zoneOffs)]
			zi++
			if off == 0 {
				out[f] = ts[f]
			} else {
				out[f] = ts[f].In(time.FixedZone(fmt.Sprintf("UTC%+d", off/3600), off))
				r.Probe("instant_carried_in_non_utc_zone")
			}
		}
		return out
	}
	// The claim is one-directional ("accepted implies nothing expired").  A rejection is judged only where the
	// honest-acceptance property speaks: every instant inside ALL validity windows of what is judged at it —
	// also after issueDate / thisUpdate and after notBefore of certificates that are not on a validated path,
	// which a verifier is free to insist on.
	starts := map[int]time.Time{}
	for _, a := range arts {
		from := a.notBefore
		switch a.name {
		case "tcbinfo-nextUpdate":
			from = w.Tcb.Issue
		case "qeidentity-nextUpdate":
			from = w.QE.Issue
		case "pckcrl-nextUpdate":
			from = w.PckCrl.This
		case "rootcrl-nextUpdate":
			from = w.RootCrl.This
		}
		if from.After(starts[a.field]) || starts[a.field].IsZero() {
			starts[a.field] = from
		}
	}
	insideAllWindows := func(level int, ts [5]time.Time) bool {
		for f := 0; f < 5; f++ {
			if (level < O1 && f != world.TPck) || (level < O2 && f >= world.TPckCrl) {
				continue
			}
			if ts[f].Before(starts[f]) {
				return false
			}
		}
		return true
	}
	check := func(item, kind string, a *c06Artifact, level int, ts [5]time.Time) {
		want, why := c06Model(arts, poolWin, level, ts)
		w.PCS.ResetTransient()
		o := verifyRaw(raw, mkOpts(level, w.PCS, w.Pool, inZones(ts)))
		r.Eval()
		got := o.Accepted()
		if got == want {
			return
		}
		if oddIssue != "" && !got {
			r.Count("rejected_with_unusual_issue_date(not judged)", 1)
			return
		}
		if !got && !insideAllWindows(level, ts) {
			r.Count("rejected_before_an_issue_date(not judged)", 1)
			return
		}
		_ = a
		_ = kind
		if got && !want {
			r.Violate("C06:accepted-out-of-date:"+strings.ReplaceAll(why, " ", "_"), "%s at level %s: accepted although %s (times %s)", item, optNames[level], why, fmtTimes(ts))
		} else {
			r.Violate("C06:rejected-in-date:"+errClass(o), "%s at level %s: rejected although every artifact is in date at its own time (times %s): %s", item, optNames[level], fmtTimes(ts), o.ErrText())
		}
	}
	subSecond := time.Duration(1+t.Draw(998)) * time.Millisecond
	// control at T0
	for level := O0; level <= O2; level++ {
		check("control@T0", "control", nil, level, base)
	}
	// (i) attribution and (ii) non-attribution around every expiry
	for ai := range arts {
		a := &arts[ai]
		// the grid the property names, and instants inside the second that follows the expiry: expired is
		// expired one nanosecond after the deadline, not from the next whole second on
		for _, d := range []time.Duration{-time.Second, 0, time.Nanosecond, subSecond, time.Second - time.Nanosecond, time.Second} {
			at := a.notAfter.Add(d)
			for f := 0; f < 5; f++ {
				item := fmt.Sprintf("expiry:%s%+s:field=%s", a.name, offName(d, subSecond), fieldNames[f])
				if !r.Item(item) {
					continue
				}
				ts := base
				ts[f] = at
				kind := "own-field"
				if f != a.field {
					kind = "other-field=" + fieldNames[f]
				}
				for level := a.minLevel; level <= O2; level++ {
					if level < O1 && f != world.TPck {
						continue
					}
					check(item, kind, a, level, ts)
				}
				r.State("expiry %s d=%s field=%s", a.name, offName(d, subSecond), fieldNames[f])
				if d == 0 && f == a.field {
					r.Probe("instant_exactly_at_expiry")
				}
				if d > 0 && d < time.Second && f == a.field {
					r.Probe("instant_inside_the_second_after_expiry")
				}
				r.EndItem()
			}
		}
		r.Fault("clock:at_expiry_of_"+a.name, true)
	}
	// the trusted root's own expiry, at each of the three time-set fields whose paths end in it (after the
	// control at T0 has verified the very same chains successfully)
	for _, d := range []time.Duration{-time.Second, 0, time.Nanosecond, time.Second, 24 * time.Hour} {
		for _, f := range []int{world.TPck, world.TTcb, world.TQE} {
			item := fmt.Sprintf("expiry:trusted-root%+s:field=%s", offName(d, subSecond), fieldNames[f])
			if !r.Item(item) {
				continue
			}
			ts := base
			ts[f] = poolWin.NotAfter.Add(d)
			for level := O0; level <= O2; level++ {
				if level < O1 && f != world.TPck {
					continue
				}
				check("control@T0", "control", nil, level, base)
				check(item, "trusted-root", nil, level, ts)
			}
			r.State("expiry trusted-root d=%s field=%s", offName(d, subSecond), fieldNames[f])
			r.EndItem()
		}
	}
	r.Fault("clock:at_expiry_of_the_trusted_root", true)
	// notBefore of the roles on validated paths
	for ai := range arts {
		a := &arts[ai]
		if !a.pathRole {
			continue
		}
		for _, d := range []int{-1, 0, 1} {
			item := fmt.Sprintf("notBefore:%s%+ds", a.name, d)
			if !r.Item(item) {
				continue
			}
			ts := base
			ts[a.field] = a.notBefore.Add(time.Duration(d) * time.Second)
			for level := a.minLevel; level <= O2; level++ {
				check(item, "notBefore", a, level, ts)
			}
			r.State("notBefore %s d=%d", a.name, d)
			r.EndItem()
		}
		r.Fault("clock:at_notBefore_of_"+a.name, true)
	}
	// five pairwise distinct, tape-chosen instants (skew per field)
	for k := 0; k < 24; k++ {
		var ts [5]time.Time
		for f := range ts {
			switch t.Draw(4) {
			case 0:
				ts[f] = T0.Add(time.Duration(t.Draw(6000*86400)-600*86400) * time.Second)
			case 1: // near some artifact's expiry, sometimes inside a second
				ts[f] = arts[t.Draw(13)].notAfter.Add(time.Duration(t.Draw(5)-2) * time.Second)
				if t.Bool() {
					ts[f] = ts[f].Add(time.Duration(t.Draw(1000)) * time.Millisecond)
				}
			default:
				ts[f] = T0.Add(time.Duration(t.Draw(300*86400)) * time.Second).Add(time.Duration(f) * time.Second)
			}
		}
		item := fmt.Sprintf("skewed:%d", k)
		if !r.Item(item) {
			continue
		}
		for level := O0; level <= O2; level++ {
			check(item, "skewed-time-set", nil, level, ts)
		}
		r.Fault("clock:per_field_skew", true)
		r.EndItem()
	}
	// a cache in front of the service answers the first request for TCB Info (or the QE identity) with an edition
	// that is past its nextUpdate and any further request with the current one, while ANOTHER artifact is out of
	// date at its own time: whatever a verifier does about the stale first answer, the other artifact's expiry
	// still decides
	if r.Item("stale-edition-served-first") {
		for _, route := range []string{world.RouteTcb, world.RouteQE} {
			var cur *world.Endpoint
			var stale []byte
			if route == world.RouteTcb {
				for _, k := range core.SortedKeys(w.PCS.Tcb) {
					cur = w.PCS.Tcb[k]
				}
				sn, si := w.Tcb.Next, w.Tcb.Issue
				w.Tcb.Next, w.Tcb.Issue = T0.AddDate(0, 0, -30), T0.AddDate(0, 0, -60)
				stale = world.SignedBody("tcbInfo", w.Tcb.JSON(), w.TcbSignerInTcb.Key)
				w.Tcb.Next, w.Tcb.Issue = sn, si
			} else {
				cur = w.PCS.QE
				sn, si := w.QE.Next, w.QE.Issue
				w.QE.Next, w.QE.Issue = T0.AddDate(0, 0, -30), T0.AddDate(0, 0, -60)
				stale = world.SignedBody("enclaveIdentity", w.QE.JSON(), w.TcbSignerInQE.Key)
				w.QE.Next, w.QE.Issue = sn, si
			}
			old := cur.Clone()
			old.Body = stale
			w.PCS.Editions = map[string][]*world.Endpoint{route: {old, cur}}
			for ai, a := range arts {
				if ai < 3 || (route == world.RouteTcb && ai == 3) || (route == world.RouteQE && ai == 6) {
					continue // the PCK chain is judged before any download; the stale document's own nextUpdate is not "another" artifact
				}
				ts := base
				ts[a.field] = a.notAfter.Add(time.Second)
				level := a.minLevel
				check(fmt.Sprintf("stale-%s-edition-first+%s-expired", route, a.name), "stale-edition-first", nil, level, ts)
			}
			w.PCS.Editions = nil
		}
		r.Fault("pcs:stale_edition_served_first_then_current", true)
		r.Probe("stale_edition_first_with_another_artifact_expired")
		r.EndItem()
	}
	// monotone timeline: all five instants move together through every boundary; once
	// anything has expired the verdict never returns to accept
	var marks []time.Time
	for _, a := range arts {
		marks = append(marks, a.notAfter, a.notAfter.Add(time.Second))
	}
	marks = append(marks, T0, poolWin.NotAfter, poolWin.NotAfter.Add(time.Second), poolWin.NotAfter.AddDate(3, 0, 0))
	sort.Slice(marks, func(i, j int) bool { return marks[i].Before(marks[j]) })
	for level := O0; level <= O2; level++ {
		item := fmt.Sprintf("timeline:level=%d", level)
		if !r.Item(item) {
			continue
		}
		expired := false
		long := mkOpts(level, w.PCS, w.Pool, base) // one long-lived options value whose clock is advanced in place
		for _, m := range marks {
			if m.Before(T0) {
				continue
			}
			ts := [5]time.Time{m, m, m, m, m}
			check(item, "timeline", nil, level, ts)
			*long.Now = *timeSet(ts)
			o := verifyRaw(raw, long)
			if want, why := c06Model(arts, poolWin, level, ts); want != o.Accepted() {
				if o.Accepted() {
					r.Violate("C06:accepted-out-of-date:long-lived-options:"+strings.ReplaceAll(why, " ", "_"), "level %s at %s through an options value used for earlier verifications: accepted although %s", optNames[level], m.Format(time.RFC3339), why)
				} else {
					r.Violate("C06:rejected-in-date:long-lived-options:"+errClass(o), "level %s at %s through an options value used for earlier verifications: rejected although everything is in date: %s", optNames[level], m.Format(time.RFC3339), o.ErrText())
				}
			}
			if expired && o.Accepted() {
				r.Violate("C06:accepted-after-expiry:timeline", "level %s: accepted at %s although a verification at an earlier instant had already failed for expiry", optNames[level], m.Format(time.RFC3339))
			}
			if !o.Accepted() {
				expired = true
			}
			r.SimTime += 0
		}
		r.Fault("clock:monotone_timeline", true)
		r.EndItem()
	}
	r.SimTime += marks[len(marks)-1].Sub(T0)
	r.Sample("world with 13 artifacts expiring at 13 distinct instants (>1 year apart): grid {-1s,at,+1s} x 5 time-set fields per expiry, notBefore grid for the 4 path roles, 24 skewed time sets, monotone timeline; e.g. only TcbInfo placed 1 s after the TCB-Info signer's notAfter => rejected, only PckCertChain placed there => accepted")
}

func offName(d, sub time.Duration) string {
	if d == sub {
		return "+sub-second"
	}
	return d.String()
}

func fmtTimes(ts [5]time.Time) string {
	s := ""
	for i, t := range ts {
		s += fmt.Sprintf("%s=%s ", fieldNames[i], t.UTC().Format(time.RFC3339Nano))
	}
	return s
}

func init() {
	register(&core.Check{
		ID:    "C06",
		Level: "fault_enumeration",
		Rule: "per run one seeded world whose 13 artifacts (PCK leaf / intermediate / root copy; TCB-Info nextUpdate, signer, root copy; QE-Identity nextUpdate, signer, root copy; PCK-CRL nextUpdate, issuer, root copy; Root-CRL nextUpdate) expire at 13 distinct instants in tape-chosen order; the complete grid {1 s before, at, +1 ns, a tape-chosen sub-second offset, +999999999 ns, 1 s after} each expiry x each of the 5 time-set fields (the governing one = attribution, the other four = non-attribution, others at T0) x applicable option levels; {-1,0,+1 s} around notBefore of the 4 path roles; 24 tape-chosen skewed time sets; a monotone timeline through all boundaries; in a third of the worlds the JSON documents carry an unusual issueDate (absent, null, year 1 / 1700 / 9999) and the CRLs a thisUpdate of 1700 (acceptances only are judged there). Every verdict is compared both ways with the model 'accept iff each artifact is in date at its own field'. " +
			"distinct = (artifact, offset, field)",
		Exhaustive: true,
		Assumptions: []string{
			"notBefore is claimed only for certificates on an x509-validated path (leaf, intermediate, collateral signers, pool root); CRL thisUpdate and notBefore of root copies are outside the claim and kept early",
			"the pool root's window is wide and distinct from the root copies carried in quote and headers",
		},
		RealStub: map[string]string{"verify.RawTdxQuote": "real", "clock": "Options.Now built from the simulated clock (no wall clock involved)", "CA / PCS validity windows": "stub (world)"},
		Runs: func(tier string) int {
			if tier == "thorough" {
				return 800
			}
			return 24
		},
		Run:         c06Run,
		MustProbe:   []string{"instant_exactly_at_expiry", "instant_inside_the_second_after_expiry", "instant_carried_in_non_utc_zone", "documents_share_one_issuer_chain", "unusual_issue_date", "trusted_root_expires_before_its_carried_copies"},
		SimTimeNote: "span of simulated instants covered by the monotone timeline of each world (years)",
	})
}
