package checks

import (
	"crypto/x509"
	"crypto/x509/pkix"
	"encoding/asn1"
	"encoding/base64"
	"encoding/binary"
	"encoding/hex"
	"encoding/pem"
	"fmt"
	"os"
	"path/filepath"
	"strings"
	"time"

	"github.com/google/go-eventlog/extract"
	"github.com/google/go-tdx-guest/abi"
	"github.com/google/go-tdx-guest/pcs"
	pb "github.com/google/go-tdx-guest/proto/tdx"
	"github.com/google/go-tdx-guest/rtmr"
	"github.com/google/go-tdx-guest/validate"
	"github.com/google/go-tdx-guest/verify"
	"github.com/google/go-tdx-guest/verify/trust"
	"google.golang.org/protobuf/proto"
	"google.golang.org/protobuf/reflect/protoreflect"
	"verif/sim/core"
	"verif/sim/world"
)

// C10 — no entry point crashes on untrusted quotes, quote messages or collateral.
// Every public entry point is driven from the seams while they misbehave; the oracle is
// only "no panic and returns within the watchdog".

const c10Watchdog = 20 * time.Second

// c10Call runs one entry point under the panic catcher and a wall-clock watchdog.
func c10Call(r *core.Run, entry, input string, f func() error) {
	done := make(chan core.Outcome, 1)
	go func() { done <- core.Call(f) }()
	var o core.Outcome
	select {
	case o = <-done:
	case <-time.After(c10Watchdog):
		r.Violate("C10:hang:"+entry, "%s did not return within %v on %s", entry, c10Watchdog, input)
		return
	}
	r.Eval()
	if o.Panicked {
		fn := core.PanicFunc(o.Stack)
		r.Violate("C10:panic:"+entry+":"+fn, "%s panicked on %s: %s [%s]", entry, input, o.PanicVal, o.Stack)
	}
}

// c10CountingGetter passes requests on and counts them; past the limit it fails every request (see its use).
type c10CountingGetter struct {
	inner    *world.PCS
	n, limit int
}

func (g *c10CountingGetter) Get(u string) (map[string][]string, []byte, error) {
	g.n++
	if g.n > g.limit {
		return nil, nil, fmt.Errorf("simulated PCS: cut off after %d requests", g.limit)
	}
	return g.inner.Get(u)
}

func c10RawEntries(r *core.Run, w *world.World, input string, raw []byte) {
	c10Call(r, "abi.QuoteToProto", input, func() error { _, err := abi.QuoteToProto(raw); return err })
	c10Call(r, "verify.RawTdxQuote", input, func() error { return verify.RawTdxQuote(raw, worldOpts(w, O0)) })
	c10Call(r, "validate.RawTdxQuote", input, func() error { return validate.RawTdxQuote(raw, &validate.Options{}) })
}

func c10MsgEntries(r *core.Run, w *world.World, input string, m any, vopts *validate.Options) {
	c10Call(r, "abi.QuoteToAbiBytes", input, func() error { _, err := abi.QuoteToAbiBytes(m); return err })
	if q, ok := m.(*pb.QuoteV4); ok {
		c10Call(r, "abi.CheckQuoteV4", input, func() error { return abi.CheckQuoteV4(q) })
		c10Call(r, "abi.HeaderToAbiBytes", input, func() error { _, err := abi.HeaderToAbiBytes(q.GetHeader()); return err })
		c10Call(r, "abi.TdQuoteBodyToAbiBytes", input, func() error { _, err := abi.TdQuoteBodyToAbiBytes(q.GetTdQuoteBody()); return err })
		c10Call(r, "abi.EnclaveReportToAbiBytes", input, func() error {
			_, err := abi.EnclaveReportToAbiBytes(q.GetSignedData().GetCertificationData().GetQeReportCertificationData().GetQeReport())
			return err
		})
	}
	c10Call(r, "verify.TdxQuote", input, func() error { return verify.TdxQuote(m, worldOpts(w, O0)) })
	c10Call(r, "verify.TdxQuote+collateral", input, func() error { return verify.TdxQuote(m, worldOpts(w, O2)) })
	c10Call(r, "verify.ExtractChainFromQuote", input, func() error { _, err := verify.ExtractChainFromQuote(m); return err })
	c10Call(r, "validate.TdxQuote", input, func() error { return validate.TdxQuote(m, vopts) })
	// rtmr.GetRtmrsFromTdQuote is deliberately not driven here: it is not one of the entry-point kinds the
	// property names, and its documentation makes the caller responsible for passing a checked quote.
}

// --- structural mutation of a message through protobuf reflection -----------------

type c10Mut struct {
	name string
	m    *pb.QuoteV4
}

func navigate(root protoreflect.Message, path []protoreflect.FieldDescriptor) protoreflect.Message {
	cur := root
	for _, fd := range path {
		cur = cur.Mutable(fd).Message()
	}
	return cur
}

func c10Mutations(base *pb.QuoteV4) []c10Mut {
	var out []c10Mut
	var walk func(path []protoreflect.FieldDescriptor, pname string, md protoreflect.MessageDescriptor)
	mutate := func(name string, path []protoreflect.FieldDescriptor, f func(m protoreflect.Message)) {
		c := proto.Clone(base).(*pb.QuoteV4)
		f(navigate(c.ProtoReflect(), path))
		out = append(out, c10Mut{name, c})
	}
	walk = func(path []protoreflect.FieldDescriptor, pname string, md protoreflect.MessageDescriptor) {
		fields := md.Fields()
		for i := 0; i < fields.Len(); i++ {
			fd := fields.Get(i)
			fname := pname + "." + string(fd.Name())
			switch {
			case fd.Kind() == protoreflect.MessageKind && !fd.IsList():
				mutate("nil:"+fname, path, func(m protoreflect.Message) { m.Clear(fd) })
				mutate("empty:"+fname, path, func(m protoreflect.Message) { m.Set(fd, protoreflect.ValueOfMessage(m.NewField(fd).Message())) })
				walk(append(append([]protoreflect.FieldDescriptor(nil), path...), fd), fname, fd.Message())
			case fd.Kind() == protoreflect.BytesKind && !fd.IsList():
				cur := navigate(base.ProtoReflect(), path).Get(fd).Bytes()
				n := len(cur)
				for _, ln := range []int{0, n - 1, n + 1, 2*n + 3} {
					if ln < 0 {
						continue
					}
					ln := ln
					mutate(fmt.Sprintf("len:%s=%s", fname, relLen(ln, n)), path, func(m protoreflect.Message) {
						b := make([]byte, ln)
						copy(b, cur)
						m.Set(fd, protoreflect.ValueOfBytes(b))
					})
				}
				mutate("unset:"+fname, path, func(m protoreflect.Message) { m.Clear(fd) })
			case fd.Kind() == protoreflect.BytesKind && fd.IsList():
				for cnt := 0; cnt <= 5; cnt++ {
					cnt := cnt
					mutate(fmt.Sprintf("count:%s=%d", fname, cnt), path, func(m protoreflect.Message) {
						l := m.Mutable(fd).List()
						l.Truncate(0)
						for k := 0; k < cnt; k++ {
							l.Append(protoreflect.ValueOfBytes(make([]byte, 48)))
						}
					})
				}
				for _, el := range []int{0, 3} {
					for _, ln := range []int{0, 47, 49} {
						el, ln := el, ln
						mutate(fmt.Sprintf("elemlen:%s[%d]=%d", fname, el, ln), path, func(m protoreflect.Message) {
							l := m.Mutable(fd).List()
							if el < l.Len() {
								l.Set(el, protoreflect.ValueOfBytes(make([]byte, ln)))
							}
						})
					}
				}
				mutate("elem-nil:"+fname, path, func(m protoreflect.Message) {
					l := m.Mutable(fd).List()
					if l.Len() > 1 {
						l.Set(1, protoreflect.ValueOfBytes(nil))
					}
				})
			case fd.Kind() == protoreflect.Uint32Kind:
				cur := uint32(navigate(base.ProtoReflect(), path).Get(fd).Uint())
				for _, v := range []uint32{0, 1, cur + 1, cur - 1, 0xffff, 0x10000, 0x7fffffff, 0xffffffff} {
					v := v
					mutate(fmt.Sprintf("u32:%s=%#x", fname, v), path, func(m protoreflect.Message) { m.Set(fd, protoreflect.ValueOfUint32(v)) })
				}
			}
		}
	}
	walk(nil, "QuoteV4", base.ProtoReflect().Descriptor())
	return out
}

func relLen(ln, n int) string {
	switch {
	case ln == 0:
		return "0"
	case ln == n-1:
		return "n-1"
	case ln == n+1:
		return "n+1"
	default:
		return "2n+3"
	}
}

// --- arbitrary endpoint responses ----------------------------------------------

func c10Responses(t *core.Tape, w *world.World) []struct {
	name string
	body []byte
} {
	deep := strings.Repeat(`{"tcbInfo":`, 3000) + "1" + strings.Repeat("}", 3000)
	deepArr := strings.Repeat("[", 20000) + strings.Repeat("]", 20000)
	g := func(member string) string {
		return `{"tcbInfo":` + member + `,"enclaveIdentity":` + member + `,"signature":"` + strings.Repeat("ab", 64) + `"}`
	}
	tcb := string(w.Tcb.JSON())
	qe := string(w.QE.JSON())
	list := []struct {
		name string
		body []byte
	}{
		{"random", t.Bytes(500)},
		{"empty-200", []byte{}},
		{"deep-nesting", []byte(deep)},
		{"deep-array", []byte(deepArr)},
		{"huge-number", []byte(g(`{"id":"TDX","version":1e999999,"tcbLevels":[]}`))},
		{"negative-version", []byte(g(`{"id":"TDX","version":-3,"tcbLevels":[{"tcb":{"pcesvn":-1,"isvsvn":99999999999999999999}}]}`))},
		{"wrong-types", []byte(g(`{"id":3,"version":"3","issueDate":5,"nextUpdate":[],"fmspc":{},"tcbLevels":{"a":1}}`))},
		{"null-member", []byte(g(`null`))},
		{"null-levels", []byte(g(`{"id":"TDX","version":3,"tcbLevels":null,"tdxModule":null,"tdxModuleIdentities":null}`))},
		{"levels-with-nulls", []byte(g(`{"id":"TDX","version":3,"tcbLevels":[null,{"tcb":null},{"tcb":{"sgxtcbcomponents":null,"tdxtcbcomponents":[null]}}]}`))},
		{"short-component-lists", []byte(g(strings.Replace(strings.Replace(tcb, `"sgxtcbcomponents":[{"svn"`, `"sgxtcbcomponents":[],"x":[{"svn"`, 1), `"tdxtcbcomponents":[{"svn"`, `"tdxtcbcomponents":[{"svn":1}],"y":[{"svn"`, 1)))},
		{"one-tdx-component", []byte(g(strings.Replace(tcb, `"tdxtcbcomponents":[`, `"tdxtcbcomponents":[{"svn":0}],"z":[`, -1)))},
		{"bad-hex", []byte(g(strings.Replace(qe, `"miscselect":"`, `"miscselect":"zz`, 1)))},
		{"empty-hex-fields", []byte(g(`{"id":"TD_QE","version":2,"miscselect":"","miscselectMask":"","attributes":"","attributesMask":"","mrsigner":"","isvprodid":1,"tcbLevels":[{"tcb":{"isvsvn":1},"tcbStatus":"UpToDate"}],"nextUpdate":"2999-01-01T00:00:00Z"}`))},
		{"bad-status", []byte(g(`{"id":"TDX","version":3,"tcbLevels":[{"tcb":{},"tcbStatus":"Whatever"}]}`))},
		{"hex-field-is-digit", []byte(g(`{"id":"TDX","version":3,"tdxModule":{"mrsigner":0,"attributes":7,"attributesMask":1},"miscselect":0,"mrsigner":5}`))},
		{"hex-field-is-number", []byte(g(`{"id":"TDX","version":3,"tdxModule":{"mrsigner":12,"attributes":-1,"attributesMask":1.5},"miscselect":10,"attributes":123456}`))},
		{"hex-field-is-other-kind", []byte(g(`{"id":"TDX","version":3,"tdxModule":{"mrsigner":[],"attributes":{},"attributesMask":true},"miscselect":null,"miscselectMask":false,"attributes":[1],"mrsigner":{"a":1}}`))},
		{"hex-field-is-short-string", []byte(g(`{"id":"TDX","version":3,"tdxModule":{"mrsigner":"","attributes":"0","attributesMask":"\""},"miscselect":"a","mrsigner":"\u0000"}`))},
		{"status-field-is-digit", []byte(g(`{"id":"TDX","version":3,"tcbLevels":[{"tcb":{},"tcbStatus":0},{"tcbStatus":[]},{"tcbStatus":""}]}`))},
		{"bad-dates", []byte(g(`{"id":"TDX","version":3,"issueDate":"yesterday","nextUpdate":"9999999-99-99T99:99:99Z"}`))},
		{"utf8-garbage-keys", []byte("{\"\xff\xfe\":1,\"tcbInfo\":{},\"signature\":\"\"}")},
		{"truncated-genuine", w.PCS.QE.Body[:len(w.PCS.QE.Body)/2]},
		{"der-not-json", w.RootCrlDER},
		{"cert-der", w.A.Root.DER},
		// other encodings a CRL endpoint (or a proxy in front of it) may answer with
		{"crl-pem", pem.EncodeToMemory(&pem.Block{Type: "X509 CRL", Bytes: w.RootCrlDER})},
		{"crl-pem-cut", pem.EncodeToMemory(&pem.Block{Type: "X509 CRL", Bytes: w.RootCrlDER})[:120]},
		{"crl-pem-begin-line-only", []byte("-----BEGIN X509 CRL-----\n")},
		{"crl-pem-begin-without-newline", []byte("-----BEGIN ")},
		{"crl-pem-certificates-then-crl", append(append([]byte(nil), w.A.Root.PEM()...), pem.EncodeToMemory(&pem.Block{Type: "X509 CRL", Bytes: w.RootCrlDER})...)},
		{"crl-pem-other-block-only", w.A.Root.PEM()},
		{"crl-hex", []byte(hex.EncodeToString(w.RootCrlDER))},
		{"crl-hex-odd", []byte(hex.EncodeToString(w.RootCrlDER)[:101])},
		{"crl-base64", []byte(base64.StdEncoding.EncodeToString(w.RootCrlDER))},
	}
	return list
}

// --- arbitrary DER in the SGX extension -----------------------------------------

func c10Extensions(t *core.Tape, w *world.World) []struct {
	name string
	der  []byte
} {
	good := w.P.Ext.DER()
	seq := world.DerSeq
	m := func(v any) []byte {
		b, err := asn1.Marshal(v)
		if err != nil {
			panic(err)
		}
		return b
	}
	oid := func(s ...int) []byte {
		return m(asn1.ObjectIdentifier(append([]int{1, 2, 840, 113741, 1, 13, 1}, s...)))
	}
	tcbWith := func(elems ...[]byte) []byte {
		return seq(seq(oid(1), m(make([]byte, 16))), seq(oid(2), seq(elems...)), seq(oid(3), m(make([]byte, 2))), seq(oid(4), m(make([]byte, 6))))
	}
	var comps [][]byte
	for i := 1; i <= 16; i++ {
		comps = append(comps, seq(oid(2, i), m(i)))
	}
	full := append(append([][]byte(nil), comps...), seq(oid(2, 17), m(7)), seq(oid(2, 18), m(make([]byte, 16))))
	repl := func(idx int, e []byte) [][]byte {
		c := append([][]byte(nil), full...)
		c[idx] = e
		return c
	}
	big := m(asn1.RawValue{Class: 0, Tag: 2, Bytes: append([]byte{0x7f}, make([]byte, 40)...)})
	list := []struct {
		name string
		der  []byte
	}{
		{"empty", []byte{}},
		{"random", t.Bytes(120)},
		{"truncated", good[:len(good)/2]},
		{"trailing-bytes", append(append([]byte(nil), good...), 0, 0)},
		{"not-a-sequence", m(5)},
		{"empty-sequence", seq()},
		{"three-elements", seq(seq(oid(1), m(make([]byte, 16))), seq(oid(3), m(make([]byte, 2))), seq(oid(4), m(make([]byte, 6))))},
		{"elements-not-sequences", seq(m(1), m(2), m(3), m(4))},
		{"element-without-value", seq(seq(oid(1)), seq(oid(2)), seq(oid(3)), seq(oid(4)))},
		{"ppid-wrong-length", seq(seq(oid(1), m(make([]byte, 15))), seq(oid(2), seq(full...)), seq(oid(3), m(make([]byte, 2))), seq(oid(4), m(make([]byte, 6))))},
		{"ppid-is-integer", seq(seq(oid(1), m(5)), seq(oid(2), seq(full...)), seq(oid(3), m(make([]byte, 2))), seq(oid(4), m(make([]byte, 6))))},
		{"fmspc-too-long", seq(seq(oid(1), m(make([]byte, 16))), seq(oid(2), seq(full...)), seq(oid(3), m(make([]byte, 2))), seq(oid(4), m(make([]byte, 600))))},
		{"tcb-not-sequence", seq(seq(oid(1), m(make([]byte, 16))), seq(oid(2), m(5)), seq(oid(3), m(make([]byte, 2))), seq(oid(4), m(make([]byte, 6))))},
		{"tcb-17-elements", tcbWith(full[:17]...)},
		{"tcb-19-elements", tcbWith(append(append([][]byte(nil), full...), seq(oid(2, 19), m(1)))...)},
		{"tcb-empty", tcbWith()},
		{"tcb-negative-component", tcbWith(repl(3, seq(oid(2, 4), m(-1)))...)},
		{"tcb-component-256", tcbWith(repl(3, seq(oid(2, 4), m(256)))...)},
		{"tcb-component-huge", tcbWith(repl(3, seq(oid(2, 4), big))...)},
		{"tcb-component-octets", tcbWith(repl(3, seq(oid(2, 4), m([]byte{1})))...)},
		{"tcb-pcesvn-65536", tcbWith(repl(16, seq(oid(2, 17), m(65536)))...)},
		{"tcb-pcesvn-negative", tcbWith(repl(16, seq(oid(2, 17), m(-5)))...)},
		{"tcb-cpusvn-15", tcbWith(repl(17, seq(oid(2, 18), m(make([]byte, 15))))...)},
		{"tcb-cpusvn-integer", tcbWith(repl(17, seq(oid(2, 18), m(9)))...)},
		{"tcb-repeated-component", tcbWith(repl(4, full[3])...)},
		{"tcb-oid-arc-0", tcbWith(repl(2, seq(oid(2, 0), m(5)))...)},
		{"tcb-oid-arc-19", tcbWith(repl(2, seq(oid(2, 19), m(5)))...)},
		{"tcb-oid-arc-255", tcbWith(repl(2, seq(oid(2, 255), m(5)))...)},
		{"tcb-oid-arc-huge", tcbWith(repl(2, seq(oid(2, 2147483647), m(5)))...)},
		{"tcb-oid-shorter", tcbWith(repl(2, seq(oid(2), m(5)))...)},
		{"tcb-oid-longer", tcbWith(repl(2, seq(oid(2, 3, 1), m(5)))...)},
		{"tcb-oid-other-tree", tcbWith(repl(2, seq(m(asn1.ObjectIdentifier{2, 5, 4, 3}), m(5)))...)},
		{"tcb-element-not-sequence", tcbWith(repl(0, m(3))...)},
		{"tcb-element-empty", tcbWith(repl(0, seq())...)},
		{"tcb-element-extra-field", tcbWith(repl(0, seq(oid(2, 1), m(1), m(2)))...)},
		{"nested-deep", func() []byte {
			b := m(1)
			for i := 0; i < 400; i++ {
				b = seq(b)
			}
			return seq(b, b, b, b)
		}()},
		{"indefinite-length", []byte{0x30, 0x80, 0x30, 0x80, 0x00, 0x00, 0x00, 0x00}},
		{"length-overflow", []byte{0x30, 0x84, 0xff, 0xff, 0xff, 0xff, 0x01}},
	}
	// the elements a platform certificate carries beyond the four the verifier needs (SGX type, platform instance
	// id, configuration with its three flags): each with a degenerate value of every primitive kind — a parser
	// that starts to read them must survive them
	enum := func(v byte) []byte { return []byte{0x0a, 0x01, v} }
	flags := seq(seq(oid(7, 1), m(true)), seq(oid(7, 2), m(false)), seq(oid(7, 3), m(true)))
	plat := func(e5, e6, e7 []byte) []byte {
		return seq(seq(oid(1), m(make([]byte, 16))), seq(oid(2), seq(full...)), seq(oid(3), m(make([]byte, 2))), seq(oid(4), m(make([]byte, 6))),
			seq(oid(5), e5), seq(oid(6), e6), seq(oid(7), e7))
	}
	odd := []struct {
		n string
		v []byte
	}{{"empty-enumerated", []byte{0x0a, 0x00}}, {"empty-integer", []byte{0x02, 0x00}}, {"empty-octets", []byte{0x04, 0x00}}, {"null", []byte{0x05, 0x00}},
		{"empty-sequence", []byte{0x30, 0x00}}, {"empty-boolean", []byte{0x01, 0x00}}, {"two-byte-boolean", []byte{0x01, 0x02, 0xff, 0xff}}, {"huge-enumerated", append([]byte{0x0a, 0x09}, make([]byte, 9)...)},
		{"negative-enumerated", []byte{0x0a, 0x01, 0x80}}, {"context-tag", []byte{0x80, 0x00}}, {"empty-oid", []byte{0x06, 0x00}}}
	list = append(list, struct {
		name string
		der  []byte
	}{"platform-7-elements-wellformed", plat(enum(1), m(make([]byte, 16)), flags)})
	for _, o := range odd {
		list = append(list,
			struct {
				name string
				der  []byte
			}{"sgx-type-" + o.n, plat(o.v, m(make([]byte, 16)), flags)},
			struct {
				name string
				der  []byte
			}{"platform-instance-" + o.n, plat(enum(1), o.v, flags)},
			struct {
				name string
				der  []byte
			}{"configuration-" + o.n, plat(enum(1), m(make([]byte, 16)), o.v)},
			struct {
				name string
				der  []byte
			}{"configuration-flag-" + o.n, plat(enum(1), m(make([]byte, 16)), seq(seq(oid(7, 1), o.v), seq(oid(7, 2), m(false)), seq(oid(7, 3), o.v)))})
	}
	return list
}

func c10Run(r *core.Run) {
	t := r.T
	w := world.NewWorld(t, world.Cfg{Processor: 1, AuthLen: []int{0, -1, 5}[t.Draw(3)], ExtraBytes: t.Draw(2) * 9})
	raw, regs := w.Quote.BytesRegions()
	find := func(n string) world.Region {
		for _, rg := range regs {
			if rg.Name == n {
				return rg
			}
		}
		panic(n)
	}
	r.Eventf("world %s", w.Describe())
	part := r.Index % 6
	switch part {
	case 0: // the device returns every truncation length of a valid quote
		stride := 1
		if !r.Thorough() {
			stride = 3
		}
		for n := (r.Index / 6) % stride; n <= len(raw); n += stride {
			if !r.Item(fmt.Sprintf("truncate:%d", n)) {
				continue
			}
			c10RawEntries(r, w, fmt.Sprintf("quote truncated to %d of %d bytes", n, len(raw)), append([]byte(nil), raw[:n]...))
			r.EndItem()
		}
		r.State("truncations region-count=%d", len(regs))
		r.Fault("device:truncated_read", true)
		r.Probe("all_truncations")
	case 1: // every boundary value of each size / type field, singly and in pairs
		type fld struct {
			name string
			off  int
			size int
		}
		fields := []fld{{"version", 0, 2}, {"aktype", 2, 2}, {"teetype", 4, 4}, {"sigdatalen", find("sigdatalen").Off, 4}, {"cdtype", find("cdtype").Off, 2},
			{"cdsize", find("cdsize").Off, 4}, {"authlen", find("authlen").Off, 2}, {"pctype", find("pctype").Off, 2}, {"pcsize", find("pcsize").Off, 4}}
		vals := func(f fld, b []byte) []uint64 {
			var cur uint64
			if f.size == 2 {
				cur = uint64(binary.LittleEndian.Uint16(b[f.off:]))
			} else {
				cur = uint64(binary.LittleEndian.Uint32(b[f.off:]))
			}
			max := uint64(1)<<(8*f.size) - 1
			vs := []uint64{0, 1, 2, 5, 6, 0x7f, 0x80, 0x85, 0x86, 0x87, 0xff, 0x100, 0x1c0, 0x1c1, 0x1c2, 0x1c8, cur - 1, cur + 1, cur - 2, cur / 2, max, max - 1, max / 2, max/2 + 1,
				uint64(len(b)), uint64(len(b) - f.off), uint64(len(b) - f.off - f.size), uint64(len(b)-f.off-f.size) + 1}
			for i := range vs {
				vs[i] &= max
			}
			return vs
		}
		put := func(b []byte, f fld, v uint64) {
			if f.size == 2 {
				binary.LittleEndian.PutUint16(b[f.off:], uint16(v))
			} else {
				binary.LittleEndian.PutUint32(b[f.off:], uint32(v))
			}
		}
		for _, f := range fields {
			for _, v := range vals(f, raw) {
				if !r.Item(fmt.Sprintf("field:%s=%#x", f.name, v)) {
					continue
				}
				b := append([]byte(nil), raw...)
				put(b, f, v)
				c10RawEntries(r, w, fmt.Sprintf("%s field set to %#x", f.name, v), b)
				// the same with the quote also cut right after that many bytes of signature data
				if f.name == "sigdatalen" && int(v) < len(raw)-636 {
					c10RawEntries(r, w, fmt.Sprintf("sigdatalen=%#x and quote cut there", v), append([]byte(nil), b[:636+int(v)]...))
				}
				r.State("field %s=%#x", f.name, v)
				r.EndItem()
			}
		}
		for k := 0; k < 150; k++ {
			b := append([]byte(nil), raw...)
			f1, f2 := fields[3+t.Draw(6)], fields[3+t.Draw(6)]
			v1, v2 := vals(f1, raw), vals(f2, raw)
			put(b, f1, v1[t.Draw(len(v1))])
			put(b, f2, v2[t.Draw(len(v2))])
			if t.Bool() {
				b = b[:t.Draw(len(b)+1)]
			}
			if !r.Item(fmt.Sprintf("fieldpair:%d", k)) {
				continue
			}
			c10RawEntries(r, w, fmt.Sprintf("fields %s and %s set to boundary values (pair %d)", f1.name, f2.name, k), b)
			r.EndItem()
		}
		r.Fault("device:size_field_boundary", true)
		r.Probe("size_field_boundaries")
	case 2: // every single structural mutation of a valid message
		base := w.Quote.Proto(0)
		vopts := &validate.Options{HeaderOptions: validate.HeaderOptions{QeVendorID: w.Quote.QEVendor[:]},
			TdQuoteBodyOptions: validate.TdQuoteBodyOptions{MrSeam: w.Quote.MrSeam[:], MinimumTeeTcbSvn: make([]byte, 16), ReportData: w.Quote.ReportData[:], Rtmrs: [][]byte{w.Quote.Rtmr[0][:], w.Quote.Rtmr[1][:], w.Quote.Rtmr[2][:], w.Quote.Rtmr[3][:]}, AnyMrTd: [][]byte{w.Quote.MrTd[:]}}}
		for _, mu := range c10Mutations(base) {
			if !r.Item("msg:" + mu.name) {
				continue
			}
			c10MsgEntries(r, w, "message with "+mu.name, mu.m, vopts)
			r.State("msg %s", mu.name)
			r.EndItem()
		}
		specials := []struct {
			name string
			m    any
		}{{"nil-interface", nil}, {"typed-nil-message", (*pb.QuoteV4)(nil)}, {"empty-message", &pb.QuoteV4{}}, {"other-type-string", "quote"}, {"other-proto-type", &pb.Header{}},
			{"header-only", &pb.QuoteV4{Header: base.Header}}, {"no-signed-data", &pb.QuoteV4{Header: base.Header, TdQuoteBody: base.TdQuoteBody}}}
		for _, sp := range specials {
			if !r.Item("msg:" + sp.name) {
				continue
			}
			c10MsgEntries(r, w, sp.name, sp.m, vopts)
			c10Call(r, "verify.SupportedTcbLevelsFromCollateral", sp.name, func() error { _, _, err := verify.SupportedTcbLevelsFromCollateral(sp.m, worldOpts(w, O1)); return err })
			r.State("msg %s", sp.name)
			r.EndItem()
		}
		c10Call(r, "verify.TdxQuote(nil options)", "nil options", func() error { return verify.TdxQuote(base, nil) })
		c10Call(r, "validate.TdxQuote(nil options)", "nil options", func() error { return validate.TdxQuote(base, nil) })
		r.Fault("wire:structural_message_mutation", true)
		r.Probe("message_mutations")
	case 3: // arbitrary collateral / CRL / issuer-chain responses
		tcbKey := ""
		for _, k := range core.SortedKeys(w.PCS.Tcb) {
			tcbKey = k
		}
		routes := []string{"tcb", "qe", "pckcrl", "rootcrl"}
		orig := map[string]*world.Endpoint{"tcb": w.PCS.Tcb[tcbKey], "qe": w.PCS.QE, "pckcrl": w.PCS.PckCrl[w.CAID], "rootcrl": w.PCS.ByURL[world.RootCRLURL]}
		set := func(route string, ep *world.Endpoint) {
			switch route {
			case "tcb":
				w.PCS.Tcb[tcbKey] = ep
			case "qe":
				w.PCS.QE = ep
			case "pckcrl":
				w.PCS.PckCrl[w.CAID] = ep
			case "rootcrl":
				w.PCS.ByURL[world.RootCRLURL] = ep
			}
		}
		hdrs := []struct {
			name string
			f    func(h map[string][]string, key string)
		}{
			{"hdr-genuine", func(h map[string][]string, key string) {}},
			{"hdr-random", func(h map[string][]string, key string) { h[key] = []string{string(t.Bytes(200))} }},
			{"hdr-pem-garbage-der", func(h map[string][]string, key string) {
				h[key] = []string{"-----BEGIN%20CERTIFICATE-----%0AAAAA%0A-----END%20CERTIFICATE-----%0A-----BEGIN%20CERTIFICATE-----%0AAAAA%0A-----END%20CERTIFICATE-----%0A"}
			}},
			{"hdr-nil-values", func(h map[string][]string, key string) { h[key] = nil }},
			{"hdr-root-without-crldp", func(h map[string][]string, key string) {
				h[key] = []string{world.IssuerChainHeader(w.A.Tcb, w.A.ReissueRootSpec(func(s *world.CertSpec) { s.CRLDP = nil }))}
			}},
			// well-formed chains of the wrong shape: two certificates of the same kind, wrong order, wrong count
			{"hdr-two-signers", func(h map[string][]string, key string) { h[key] = []string{world.IssuerChainHeader(w.A.Tcb, w.A.Tcb)} }},
			{"hdr-intermediate-and-signer", func(h map[string][]string, key string) { h[key] = []string{world.IssuerChainHeader(w.A.Plat, w.A.Tcb)} }},
			{"hdr-leaf-and-intermediate", func(h map[string][]string, key string) { h[key] = []string{world.IssuerChainHeader(w.P.PCK, w.A.Plat)} }},
			{"hdr-two-roots", func(h map[string][]string, key string) {
				h[key] = []string{world.IssuerChainHeader(w.A.Root, w.A.Root)}
			}},
			{"hdr-root-then-signer", func(h map[string][]string, key string) { h[key] = []string{world.IssuerChainHeader(w.A.Root, w.A.Tcb)} }},
			{"hdr-one-certificate", func(h map[string][]string, key string) { h[key] = []string{world.IssuerChainHeader(w.A.Tcb)} }},
			{"hdr-three-certificates", func(h map[string][]string, key string) {
				h[key] = []string{world.IssuerChainHeader(w.A.Tcb, w.A.Plat, w.A.Root)}
			}},
		}
		for _, route := range routes {
			resps := append(c10Responses(t, w), struct {
				name string
				body []byte
			}{"genuine-body", nil})
			for _, resp := range resps {
				for _, hd := range hdrs {
					if hd.name != "hdr-genuine" && resp.name != "random" && resp.name != "null-levels" && resp.name != "genuine-body" {
						continue
					}
					if hd.name == "hdr-genuine" && resp.name == "genuine-body" {
						continue
					}
					name := fmt.Sprintf("pcs:%s:%s:%s", route, resp.name, hd.name)
					if !r.Item(name) {
						continue
					}
					ep := orig[route].Clone()
					if resp.body != nil {
						ep.Body = resp.body
					}
					for _, k := range core.SortedKeys(ep.Hdr) {
						hd.f(ep.Hdr, k)
					}
					set(route, ep)
					c10Call(r, "verify.RawTdxQuote+collateral", name, func() error { return verify.RawTdxQuote(raw, worldOpts(w, O2)) })
					opts := worldOpts(w, O2)
					m, _ := parseMsg(raw)
					c10Call(r, "verify.TdxQuote+SupportedTcbLevels", name, func() error {
						verify.TdxQuote(m, opts)
						_, _, err := verify.SupportedTcbLevelsFromCollateral(m, opts)
						return err
					})
					// the same response behind the library's own retrying getter (what a caller who sets no getter
					// gets): whatever a wrapped getter that does not fail answers, the call returns
					cg := &c10CountingGetter{inner: w.PCS, limit: 2000}
					c10Call(r, "verify.RawTdxQuote+collateral+RetryHTTPSGetter", name, func() error {
						o := worldOpts(w, O2)
						o.Getter = &trust.RetryHTTPSGetter{Timeout: 200 * time.Millisecond, MaxRetryDelay: 20 * time.Millisecond, Getter: cg}
						return verify.RawTdxQuote(raw, o)
					})
					if cg.n > cg.limit {
						// the service answered every request at once and successfully, and the call still had not returned
						// after thousands of answers: left alone it spins for ever (the simulation cut it off by failing
						// the wrapped getter from then on, which lets the retry timeout end the call)
						r.Violate("C10:hang:verify.RawTdxQuote+collateral+RetryHTTPSGetter", "verify.RawTdxQuote behind the retrying getter had not returned after %d successful answers of the wrapped getter on %s", cg.limit, name)
					}
					set(route, orig[route])
					r.State("pcs %s %s %s", route, resp.name, hd.name)
					r.EndItem()
				}
			}
		}
		// genuine documents whose decoded content is structurally odd but correctly signed
		oddDocs := []func(){
			func() { w.Tcb.Levels = nil; w.Tcb.OmitLevels = true },
			func() { w.Tcb.ModMask, w.Tcb.ModAttr = []byte{}, []byte{} },
			func() { w.Tcb.ModMask = make([]byte, 9) },
			func() { w.QE.MiscMask, w.QE.Misc = []byte{1, 2, 3}, []byte{1, 2, 3} },
			func() { w.QE.AttrMask = make([]byte, 17) },
			func() { w.QE.Levels = nil },
			func() { w.Tcb.Modules = []world.ModuleIdentity{{ID: fmt.Sprintf("TDX_%02d", w.P.Tee[1])}} },
		}
		saveT, saveQ := *w.Tcb, *w.QE
		for i, f := range oddDocs {
			name := fmt.Sprintf("pcs:signed-odd-document:%d", i)
			if !r.Item(name) {
				continue
			}
			*w.Tcb, *w.QE = saveT, saveQ
			f()
			w.Publish()
			c10Call(r, "verify.RawTdxQuote+collateral", name, func() error { return verify.RawTdxQuote(raw, worldOpts(w, O1)) })
			opts := worldOpts(w, O1)
			m, _ := parseMsg(raw)
			c10Call(r, "verify.TdxQuote+SupportedTcbLevels", name, func() error {
				verify.TdxQuote(m, opts)
				_, _, err := verify.SupportedTcbLevelsFromCollateral(m, opts)
				return err
			})
			r.State("pcs signed-odd %d", i)
			r.EndItem()
		}
		*w.Tcb, *w.QE = saveT, saveQ
		w.Publish()
		r.Fault("pcs:arbitrary_response", true)
		r.Probe("arbitrary_responses")
	case 4: // a rogue CA issues leaves whose SGX extension is arbitrary DER; odd chains
		for _, e := range c10Extensions(t, w) {
			if !r.Item("ext:" + e.name) {
				continue
			}
			sp := w.P.PCKSp
			sp.ExtraExt = []pkix.Extension{{Id: asn1.ObjectIdentifier{1, 2, 840, 113741, 1, 13, 1}, Value: e.der}}
			leaf := world.Issue(sp, w.P.PCKKey, w.CA, w.CAKey)
			c10Call(r, "pcs.PckCertificateExtensions", "SGX extension "+e.name, func() error { _, err := pcs.PckCertificateExtensions(leaf.X); return err })
			q := w.Quote.Clone()
			q.Chain = world.ChainPEM(leaf, w.CA, w.A.Root, false)
			c10RawEntries(r, w, "quote whose leaf has SGX extension "+e.name, q.Bytes())
			c10Call(r, "verify.RawTdxQuote+collateral", "SGX extension "+e.name, func() error { return verify.RawTdxQuote(q.Bytes(), worldOpts(w, O2)) })
			r.State("ext %s", e.name)
			r.EndItem()
		}
		// certificates that are not PCK certificates at all
		for i, c := range []*x509.Certificate{w.A.Root.X, w.A.Tcb.X, {}, {Extensions: make([]pkix.Extension, 6)}} {
			c := c
			c10Call(r, "pcs.PckCertificateExtensions", fmt.Sprintf("non-PCK certificate %d", i), func() error { _, err := pcs.PckCertificateExtensions(c); return err })
		}
		// chains of odd shape
		pemOf := func(cs ...*world.Cert) []byte {
			var b []byte
			for _, c := range cs {
				b = append(b, c.PEM()...)
			}
			return b
		}
		chains := map[string][]byte{
			"empty": {}, "nul-only": {0}, "one-cert": pemOf(w.P.PCK), "two-certs": pemOf(w.P.PCK, w.CA), "four-certs": pemOf(w.P.PCK, w.CA, w.A.Root, w.A.Root),
			"garbage": t.Bytes(300), "pem-garbage-der": []byte("-----BEGIN CERTIFICATE-----\nAAAA\n-----END CERTIFICATE-----\n-----BEGIN CERTIFICATE-----\nAAAA\n-----END CERTIFICATE-----\n-----BEGIN CERTIFICATE-----\nAAAA\n-----END CERTIFICATE-----\n"),
			"wrong-type": []byte(strings.ReplaceAll(string(pemOf(w.P.PCK, w.CA, w.A.Root)), "CERTIFICATE", "X509 CRL")),
			"two-nuls":   append(pemOf(w.P.PCK, w.CA, w.A.Root), 0, 0),
		}
		for _, k := range core.SortedKeys(chains) {
			if !r.Item("chain:" + k) {
				continue
			}
			q := w.Quote.Clone()
			q.Chain = chains[k]
			c10RawEntries(r, w, "quote with chain "+k, q.Bytes())
			c10MsgEntries(r, w, "message with chain "+k, q.Proto(0), &validate.Options{})
			r.State("chain %s", k)
			r.EndItem()
		}
		r.Fault("ca:arbitrary_sgx_extension", true)
		r.Probe("arbitrary_extensions")
	case 5: // the firmware event log is truncated / garbage while the quote is fine
		c10Ccel(r, w)
	}
	r.Sample("world %s, part %d of {all truncations, size-field boundary values, structural message mutations, arbitrary endpoint responses, arbitrary SGX extensions and chains, truncated event logs}: every public entry point returned", w.Describe(), part)
}

func c10Ccel(r *core.Run, w *world.World) {
	t := r.T
	dir := filepath.Join(repoDir(), "testing/testdata/ccel")
	ccel, err1 := os.ReadFile(filepath.Join(dir, "ccel_data.dat"))
	table, err2 := os.ReadFile(filepath.Join(dir, "ccel_table.dat"))
	if err1 != nil || err2 != nil {
		r.Eventf("ccel sample not readable: %v %v", err1, err2)
		return
	}
	// the quote passes both gates (honest, no policy), so the log parser is reached
	m := w.Quote.Proto(0)
	opts := func() *rtmr.ParseTdxCcelOpts {
		return &rtmr.ParseTdxCcelOpts{Validation: &validate.Options{}, Verification: worldOpts(w, O0), ExtractOpt: extract.Opts{Loader: extract.GRUB}}
	}
	// the meaningful part of the sample log (the rest of the 256 KiB file is padding)
	used := len(ccel)
	for used > 0 && (ccel[used-1] == 0 || ccel[used-1] == 0xff) {
		used--
	}
	lens := []int{0, 1, 2, 31, 32, 33, 63, 64, 65, 100, used - 1, used, used + 1, len(ccel)}
	for i := 0; i < 120; i++ {
		lens = append(lens, t.Draw(used+2))
	}
	for _, n := range lens {
		if n < 0 || n > len(ccel) {
			continue
		}
		if !r.Item(fmt.Sprintf("ccel:truncate:%d", n)) {
			continue
		}
		c10Call(r, "rtmr.ParseCcelWithTdQuote", fmt.Sprintf("event log truncated to %d bytes", n), func() error {
			_, err := rtmr.ParseCcelWithTdQuote(ccel[:n], table, m, opts())
			return err
		})
		r.EndItem()
	}
	for n := 0; n <= len(table); n++ {
		if !r.Item(fmt.Sprintf("ccel:table-truncate:%d", n)) {
			continue
		}
		c10Call(r, "rtmr.ParseCcelWithTdQuote", fmt.Sprintf("ACPI table truncated to %d bytes", n), func() error {
			_, err := rtmr.ParseCcelWithTdQuote(ccel, table[:n], m, opts())
			return err
		})
		r.EndItem()
	}
	for i := 0; i < 60; i++ {
		b := append([]byte(nil), ccel[:used]...)
		for k := 0; k < 1+t.Draw(4); k++ {
			b[t.Draw(len(b))] ^= byte(1 + t.Draw(255))
		}
		if !r.Item(fmt.Sprintf("ccel:mutated:%d", i)) {
			continue
		}
		c10Call(r, "rtmr.ParseCcelWithTdQuote", fmt.Sprintf("event log with random byte mutations (%d)", i), func() error {
			_, err := rtmr.ParseCcelWithTdQuote(b, table, m, opts())
			return err
		})
		r.EndItem()
	}
	c10Call(r, "rtmr.ParseCcelWithTdQuote", "nil quote", func() error { _, err := rtmr.ParseCcelWithTdQuote(ccel, table, nil, opts()); return err })
	c10Call(r, "rtmr.ParseCcelWithTdQuote", "typed-nil quote", func() error {
		_, err := rtmr.ParseCcelWithTdQuote(ccel, table, (*pb.QuoteV4)(nil), opts())
		return err
	})
	r.State("ccel truncations")
	r.Fault("firmware:truncated_or_mutated_event_log", true)
	r.Probe("event_log_faults")
}

func init() {
	register(&core.Check{
		ID:      "C10",
		Isolate: true,
		Level:   "exploration",
		Rule: "six kinds of runs over one seeded world each: (0) the device returns EVERY truncation length of the valid quote (quick: every 3rd, three runs tile all); (1) every boundary value (28 per field) of each of the 9 size/type fields, plus 150 tape-chosen pairs with optional truncation; (2) every single structural mutation of the message found by protobuf reflection (each sub-message nil / empty, each bytes field at 0 / n-1 / n+1 / 2n+3 / unset, RTMR count 0..5, element lengths, each uint32 at 8 values) plus nil / typed-nil / foreign types, through 10 message entry points; (3) 19 arbitrary bodies x 4 routes (+ header variants) and 7 correctly signed but structurally odd documents; (4) 32 arbitrary DER SGX extensions signed by the CA, non-PCK certificates, 9 odd chains; (5) truncated / mutated CCEL logs and tables. Oracle: no panic, returns within a 20 s watchdog. " +
			"distinct = mutation name / field value / route x response",
		Assumptions: []string{"coverage-guided fuzzing named in the quantifier is outside this technique and is not done", "panics inside go-eventlog / the standard library would be reported too (none seen) but are the trusted base's"},
		RealStub:    map[string]string{"abi / verify / validate / pcs / rtmr entry points": "real", "guest device, wire, PCS, CA, firmware log": "stub (faulty)", "go-eventlog parser": "real (trusted base)"},
		Runs: func(tier string) int {
			if tier == "thorough" {
				return 6 * 100
			}
			return 36
		},
		Run:       c10Run,
		MustProbe: []string{"all_truncations", "size_field_boundaries", "message_mutations", "arbitrary_responses", "arbitrary_extensions", "event_log_faults"},
	})
}
