package checks

import (
	"encoding/binary"
	"strings"

	"github.com/google/go-tdx-guest/verify"
	"verif/sim/core"
	"verif/sim/world"
)

// C07 — the quoting enclave must match Intel's QE identity and be UpToDate (hosted:
// QE reports are re-signed by the PCK key and QE identities by the TCB signer, which only
// the simulated CA / PCS can do; the deciding element is the reference model).

func c07Doc(t *core.Tape, w *world.World, rep *world.QEReport, version int) *world.QEIdentityDoc {
	d := &world.QEIdentityDoc{ID: "TD_QE", Version: 2, Issue: w.Epoch.AddDate(0, 0, -9), Next: w.Epoch.AddDate(0, 0, 21), EvalNum: version}
	var misc [4]byte
	binary.LittleEndian.PutUint32(misc[:], rep.MiscSelect)
	mask := func(n int) []byte {
		switch t.Draw(5) {
		case 0:
			return make([]byte, n)
		case 1:
			return bytesOf(0xff, n)
		default:
			return t.Bytes(n)
		}
	}
	d.MiscMask = mask(4)
	d.Misc = andB(misc[:], d.MiscMask)
	d.AttrMask = mask(16)
	d.Attr = andB(rep.Attributes[:], d.AttrMask)
	d.Mrsigner = append([]byte(nil), rep.MrSigner[:]...)
	d.ProdID = int(rep.IsvProdID)
	// one identity fault in about half of the documents
	switch t.Draw(24) {
	case 0: // a masked bit differs
		i := t.Draw(4)
		b := byte(1) << t.Draw(8)
		d.MiscMask[i] |= b
		d.Misc = andB(misc[:], d.MiscMask)
		d.Misc[i] ^= b
	case 1: // a bit set in the value outside the mask
		i := t.Draw(4)
		b := byte(1) << t.Draw(8)
		d.MiscMask[i] &^= b
		d.Misc = andB(misc[:], d.MiscMask)
		d.Misc[i] |= b
	case 2:
		i := t.Draw(16)
		b := byte(1) << t.Draw(8)
		d.AttrMask[i] |= b
		d.Attr = andB(rep.Attributes[:], d.AttrMask)
		d.Attr[i] ^= b
	case 3:
		i := t.Draw(16)
		b := byte(1) << t.Draw(8)
		d.AttrMask[i] &^= b
		d.Attr = andB(rep.Attributes[:], d.AttrMask)
		d.Attr[i] |= b
	case 4:
		d.Mrsigner[t.Draw(32)] ^= 1 << t.Draw(8)
	case 5:
		d.ProdID = int(rep.IsvProdID) ^ (1 << t.Draw(16))
	case 6: // lengths
		n := []int{0, 3, 5}[t.Draw(3)]
		d.MiscMask = fit(d.MiscMask, n)
		if t.Bool() {
			d.Misc = fit(d.Misc, n)
		}
	case 7:
		n := []int{0, 3, 5}[t.Draw(3)]
		d.Misc = fit(d.Misc, n)
	case 8:
		n := []int{0, 15, 17}[t.Draw(3)]
		d.AttrMask = fit(d.AttrMask, n)
		if t.Bool() {
			d.Attr = fit(d.Attr, n)
		}
	case 9:
		n := []int{0, 15, 17}[t.Draw(3)]
		d.Attr = fit(d.Attr, n)
	case 10:
		d.Mrsigner = fit(d.Mrsigner, []int{0, 31, 33}[t.Draw(3)])
	case 11, 12: // two masked bytes differ by the very same bit pattern (differences that cancel out under XOR, sum to zero mod 256 with their complement, ...)
		i := t.Draw(16)
		j := (i + 1 + t.Draw(15)) % 16
		b := byte(1) << t.Draw(8)
		d.AttrMask[i] |= b
		d.AttrMask[j] |= b
		d.Attr = andB(rep.Attributes[:], d.AttrMask)
		d.Attr[i] ^= b
		d.Attr[j] ^= b
	case 13: // the same in MISCSELECT
		i := t.Draw(4)
		j := (i + 1 + t.Draw(3)) % 4
		b := byte(1) << t.Draw(8)
		d.MiscMask[i] |= b
		d.MiscMask[j] |= b
		d.Misc = andB(misc[:], d.MiscMask)
		d.Misc[i] ^= b
		d.Misc[j] ^= b
	}
	n := 1 + t.Draw(5)
	for i := 0; i < n; i++ {
		iv := int(rep.IsvSvn) + []int{-2, -1, 0, 0, 1, 2, 300}[t.Draw(7)]
		if iv < 0 {
			iv = 0
		}
		if t.Chance(1, 8) {
			// the JSON number is 32 bits wide, the report's ISVSVN only 16: such a level can never be reached
			iv = []int{65536, 65536 + int(rep.IsvSvn)%5, 131072, 65536 + int(rep.IsvSvn), 0xffffffff}[t.Draw(5)]
		}
		st := world.Statuses[t.Draw(len(world.Statuses))]
		if t.Chance(2, 5) {
			st = "UpToDate"
		}
		d.Levels = append(d.Levels, world.QELevel{Isvsvn: uint32(iv), Status: st, Date: world.RandTcbDate(t)})
	}
	return d
}

// fit truncates or zero-extends b to n bytes.
func fit(b []byte, n int) []byte {
	out := make([]byte, n)
	copy(out, b)
	return out
}

func c07Run(r *core.Run) {
	t := r.T
	w := world.NewWorld(t, world.Cfg{Processor: 1, AuthLen: []int{0, -1, 7}[t.Draw(3)]})
	r.Eventf("world %s", w.Describe())
	version := 1
	nEvents := 3 + t.Draw(5)
	var longLived *verify.Options
	if t.Bool() {
		longLived = worldOpts(w, O1) // a long-lived verifier: one options value serves the whole timeline
		r.Probe("timeline_through_one_options_value")
	}
	for ev := 0; ev < nEvents; ev++ {
		switch t.Draw(3) {
		case 0: // the QE is updated / differs: new report, signed by the PCK key, binding kept valid
			q := w.Quote
			switch t.Draw(6) {
			case 0:
				q.QE.IsvSvn = uint16(int(q.QE.IsvSvn) + []int{-1, 1, 2}[t.Draw(3)])
			case 1:
				q.QE.MiscSelect ^= 1 << t.Draw(32)
			case 2:
				q.QE.Attributes[t.Draw(16)] ^= 1 << t.Draw(8)
			case 3:
				q.QE.MrSigner[t.Draw(32)] ^= 1 << t.Draw(8)
			case 4:
				q.QE.IsvProdID ^= 1 << t.Draw(16)
			case 5:
				q.QE.MrEnclave[t.Draw(32)] ^= 0xff // not part of the identity: must not matter
			}
			q.BindAK()
			q.SignQE(w.P.PCKKey)
			r.Eventf("event %d: QEUpdate isvsvn=%d prodid=%d misc=%#x", ev, q.QE.IsvSvn, q.QE.IsvProdID, q.QE.MiscSelect)
			r.Fault("timeline:qe_report_changed_and_resigned", true)
		default:
			version++
			w.QE = c07Doc(t, w, &w.Quote.QE, version)
			w.Publish()
			r.Eventf("event %d: Publish QE identity version=%d levels=%d", ev, version, len(w.QE.Levels))
			r.Fault("timeline:publish_new_qe_identity", true)
		}
		mv := world.EvalQE(w.QE, &w.Quote.QE)
		raw := w.Quote.Bytes()
		opts := worldOpts(w, O1+t.Draw(2))
		if longLived != nil {
			lvl := O1 + t.Draw(2)
			longLived.GetCollateral, longLived.CheckRevocations = true, lvl == O2
			longLived.Getter = w.PCS
			opts = longLived
		}
		// "the fault first, then the genuine answer": before a verification that must reject, a box on the path
		// answers once with an identity every QE satisfies (all-zero masks, one UpToDate level at 0) under the
		// genuine document's signature value.  That answer does not verify; and whatever the verifier kept from the
		// failed call, the next call is judged by the member Intel signed.
		if mv.Exp == world.MustReject && t.Chance(1, 3) {
			genuine := w.PCS.QE
			if i := strings.Index(string(genuine.Body), `"signature":"`); i >= 0 {
				sig := genuine.Body[i+len(`"signature":`):]
				if j := strings.IndexByte(string(sig[1:]), '"'); j >= 0 {
					sig = sig[:j+2]
					agree := *w.QE
					agree.MiscMask, agree.Misc, agree.AttrMask, agree.Attr = make([]byte, 4), make([]byte, 4), make([]byte, 16), make([]byte, 16)
					agree.Mrsigner = append([]byte(nil), w.Quote.QE.MrSigner[:]...)
					agree.ProdID = int(w.Quote.QE.IsvProdID)
					agree.Levels = []world.QELevel{{Isvsvn: 0, Status: "UpToDate"}}
					ep := genuine.Clone()
					ep.Body = world.Envelope(world.Member{Key: "enclaveIdentity", Raw: agree.JSON()}, world.Member{Key: "signature", Raw: sig})
					w.PCS.QE = ep
					op := verifyRaw(raw, opts)
					w.PCS.QE = genuine
					r.Eval()
					r.Eventf("event %d: agreeable identity under the genuine signature value served first -> %s", ev, errClass(op))
					r.Fault("pcs:agreeable_identity_with_genuine_signature_value_served_first", true)
					r.Probe("fault_first_then_genuine_identity")
					if op.Accepted() {
						r.Violate("C07:accepted:unsigned-agreeable-identity", "quote accepted on an identity document that the signature in the response does not cover")
					}
				}
			}
		}
		o := verifyRaw(raw, opts)
		r.Eval()
		st := "none"
		if mv.Level >= 0 {
			st = w.QE.Levels[mv.Level].Status
		}
		r.State("n=%d match=%d st=%s clause=%s", len(w.QE.Levels), mv.Level, st, clauseKind(mv.Clause))
		r.Eventf("event %d: Verify model=%s(%s) level=%d -> %s", ev, mv.Exp, mv.Clause, mv.Level, errClass(o))
		if mv.Level > 0 {
			r.Probe("first_match_not_first_level")
		}
		if mv.Clause == "no-qe-level-matches" {
			r.Probe("no_level_matches")
		}
		if mv.Clause == "qe-miscselect-length" || mv.Clause == "qe-attributes-length" {
			r.Probe("wrong_mask_length")
		}
		// the message form carries ISVSVN and ISVPRODID as 32-bit numbers although the signed report holds 16:
		// a message whose high bits are set is not the report the PCK key signed, whatever level the larger
		// number would select
		if t.Chance(1, 3) {
			m := w.Quote.Proto(0)
			rep := m.SignedData.CertificationData.QeReportCertificationData.QeReport
			bit := uint32(1) << (16 + t.Draw(16))
			what := "isv_svn"
			if t.Bool() {
				rep.IsvSvn |= bit
			} else {
				rep.IsvProdId |= bit
				what = "isv_prod_id"
			}
			om := verifyMsg(m, opts)
			r.Eval()
			r.Probe("message_form_high_bits_in_qe_report")
			if om.Accepted() {
				r.Violate("C07:accepted:message-qe-report-"+what+"-beyond-16-bits", "a quote message whose QE report %s has bit %#x set (the signed report holds 16 bits) was accepted; identity levels=%v", what, bit, w.QE.Levels)
			}
		}
		switch {
		case mv.Exp == world.MustReject && o.Accepted():
			r.Violate("C07:accepted:"+clauseKind(mv.Clause), "quote accepted although the QE does not match the signed QE identity (%s): report isvsvn=%d prodid=%d misc=%#x; identity levels=%v", mv.Clause, w.Quote.QE.IsvSvn, w.Quote.QE.IsvProdID, w.Quote.QE.MiscSelect, w.QE.Levels)
		case mv.Exp == world.MustAccept && !o.Accepted():
			r.Violate("C07:rejected:"+errClass(o), "quote rejected although the QE matches the signed identity and level %d is UpToDate: %s", mv.Level, o.ErrText())
		}
	}
	r.Sample("timeline in world %s: %d events (new signed QE identity / QE report changed and re-signed by the PCK key), each followed by Verify and compared with the transcription of the C07 sentence", w.Describe(), nEvents)
}

func init() {
	register(&core.Check{
		ID:    "C07",
		Level: "exploration",
		Rule: "per run a timeline of 3-7 events: Intel publishes a new signed QE identity (masks all-zero / all-one / random; one identity fault in ~half the documents: masked bit differs (also in two bytes by the same pattern), value bit outside the mask, MRSIGNER / ISVPRODID differ, field or mask length 0/3/5 resp. 0/15/17, MRSIGNER length 0/31/33; 1-5 levels with isvsvn at -2..+2 around the report's, any of the 7 statuses), or the QE report changes (ISVSVN, MISCSELECT, ATTRIBUTES, MRSIGNER, ISVPRODID, MRENCLAVE) and is re-signed by the PCK key with the hash binding kept valid; after each event verify.RawTdxQuote is compared with the transcription of the C07 sentence. " +
			"distinct = (list length, first-match index or none, its status, deciding clause)",
		Assumptions: []string{"hosted: decided by agreement with the reference model over seeded party states", "wrong field/mask lengths cannot 'equal once masked' and must be rejected"},
		RealStub:    map[string]string{"verify.RawTdxQuote": "real", "pcs JSON decoding": "real", "Intel CA, TCB signer, QE": "stub (world, timeline)", "reference model": "world.EvalQE"},
		Runs: func(tier string) int {
			if tier == "thorough" {
				return 60000
			}
			return 1500
		},
		Run:       c07Run,
		MustProbe: []string{"first_match_not_first_level", "no_level_matches", "wrong_mask_length", "timeline_through_one_options_value", "message_form_high_bits_in_qe_report"},
	})
}
