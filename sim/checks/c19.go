package checks

import (
	"bytes"
	"crypto/sha256"
	"encoding/binary"
	"encoding/hex"
	"fmt"
	"os"
	"os/exec"
	"path/filepath"
	"sort"
	"strings"
	"time"

	ccpb "github.com/google/go-tdx-guest/proto/checkconfig"
	pb "github.com/google/go-tdx-guest/proto/tdx"
	"google.golang.org/protobuf/encoding/prototext"
	"google.golang.org/protobuf/proto"
	"verif/sim/core"
	"verif/sim/world"
)

// C19 — the check tool's exit code is truthful, flags override config, it never crashes.
// The unit under test is the built binary (with the tag-guarded getter hook), one process
// per run, in a per-run directory holding the simulated disk and the simulated PCS.

type c19Field struct {
	name string // flag name == proto field name
	size int
	get  func(q *world.Quote) []byte
	set  func(p *ccpb.Policy, v []byte)
}

var c19Fields = []c19Field{
	{"qe_vendor_id", 16, func(q *world.Quote) []byte { return q.QEVendor[:] }, func(p *ccpb.Policy, v []byte) { p.HeaderPolicy.QeVendorId = v }},
	{"mr_seam", 48, func(q *world.Quote) []byte { return q.MrSeam[:] }, func(p *ccpb.Policy, v []byte) { p.TdQuoteBodyPolicy.MrSeam = v }},
	{"td_attributes", 8, func(q *world.Quote) []byte { return q.TdAttr[:] }, func(p *ccpb.Policy, v []byte) { p.TdQuoteBodyPolicy.TdAttributes = v }},
	{"xfam", 8, func(q *world.Quote) []byte { return q.Xfam[:] }, func(p *ccpb.Policy, v []byte) { p.TdQuoteBodyPolicy.Xfam = v }},
	{"mr_td", 48, func(q *world.Quote) []byte { return q.MrTd[:] }, func(p *ccpb.Policy, v []byte) { p.TdQuoteBodyPolicy.MrTd = v }},
	{"mr_config_id", 48, func(q *world.Quote) []byte { return q.MrConfigID[:] }, func(p *ccpb.Policy, v []byte) { p.TdQuoteBodyPolicy.MrConfigId = v }},
	{"mr_owner", 48, func(q *world.Quote) []byte { return q.MrOwner[:] }, func(p *ccpb.Policy, v []byte) { p.TdQuoteBodyPolicy.MrOwner = v }},
	{"mr_owner_config", 48, func(q *world.Quote) []byte { return q.MrOwnerConfig[:] }, func(p *ccpb.Policy, v []byte) { p.TdQuoteBodyPolicy.MrOwnerConfig = v }},
	{"report_data", 64, func(q *world.Quote) []byte { return q.ReportData[:] }, func(p *ccpb.Policy, v []byte) { p.TdQuoteBodyPolicy.ReportData = v }},
}

// state of one field in config or flags
const (
	fAbsent = iota
	fMatch
	fMismatch
	fMalformed
)

var fStateNames = []string{"absent", "match", "mismatch", "malformed"}

type c19Causes map[int]string

func (c c19Causes) add(code int, why string) {
	if _, ok := c[code]; !ok {
		c[code] = why
	}
}

func (c c19Causes) String() string {
	var ks []int
	for k := range c {
		ks = append(ks, k)
	}
	sort.Ints(ks)
	var parts []string
	for _, k := range ks {
		parts = append(parts, fmt.Sprintf("%d(%s)", k, c[k]))
	}
	return strings.Join(parts, ",")
}

func c19Run(r *core.Run) {
	t := r.T
	bin := os.Getenv("VERIF_CHECK_BIN")
	if bin == "" {
		panic("C19 needs VERIF_CHECK_BIN (bin/vcheck builds tools/check with -tags verif)")
	}
	now := wallNow
	w := world.NewWorld(t, world.Cfg{Processor: 1, AuthLen: 0, Epoch: now})
	C := world.NewPKI(t, "C", now, nil)
	dir, err := os.MkdirTemp("", "verif-c19-")
	if err != nil {
		panic(err)
	}
	defer os.RemoveAll(dir)
	causes := c19Causes{}
	var args []string
	var desc []string
	note := func(format string, a ...any) { desc = append(desc, fmt.Sprintf(format, a...)) }
	write := func(name string, b []byte) string {
		p := filepath.Join(dir, name)
		if err := os.WriteFile(p, b, 0o600); err != nil {
			panic(err)
		}
		return p
	}
	few := func() bool { return t.Chance(1, 6) }
	// swarm: half of the runs are "calm" — faults are allowed in one tape-chosen dimension only
	// (0 quote, 1 roots, 2 options, 3 policy, 4 network, 5 config shape), so that runs reach the
	// late stages of the tool (policy evaluation, exit 0) instead of dying at the first gate.
	calm, focus := t.Bool(), t.Draw(6)
	// policy-focused calm runs come in two kinds: any number of policy expectations may fail, or (half of them)
	// faults are allowed in ONE tape-chosen section of the policy only (0 exact-match fields, 1 minimum SVNs,
	// 2 minimum TEE TCB SVN, 3 any_mr_td, 4 RTMRs), so that one unmet expectation decides the exit status alone
	singleSection := -1
	if calm && focus == 3 && t.Bool() {
		singleSection = t.Draw(5)
	}
	section := -1 // the policy section being generated
	allow := func(dim int) bool {
		if calm && dim != focus {
			return false
		}
		if dim == 3 && singleSection >= 0 && section != singleSection {
			return false
		}
		return true
	}

	// ---- the quote
	q := w.Quote.Clone()
	quoteKind := "valid"
	qk := t.Draw(12)
	if !allow(0) {
		qk = 11
	}
	switch qk {
	case 0:
		q.SignBody(world.NewKey(t))
		quoteKind = "forged-body-signature"
		causes.add(2, "quote body not signed by its attestation key")
	case 1:
		q.SignQE(world.NewKey(t))
		quoteKind = "forged-qe-signature"
		causes.add(2, "QE report not signed by the PCK key")
	case 2:
		quoteKind = "unparsable"
	case 3:
		quoteKind = "partial-message"
	case 4:
		quoteKind = "size-field-boundary"
	case 5:
		quoteKind = "message-with-short-field"
	}
	inform := []string{"bin", "proto", "textproto"}[t.Draw(3)]
	anyExit := false // only "no crash, no hang" is judged
	var quoteBytes []byte
	switch {
	case quoteKind == "unparsable":
		switch inform {
		case "bin":
			quoteBytes = q.Bytes()[:100+t.Draw(900)]
		case "proto":
			quoteBytes = append([]byte{0xff, 0xff, 0xff}, t.Bytes(50)...)
		default:
			quoteBytes = []byte("header { version: 4 \n this is not textproto")
		}
		causes.add(1, "quote file cannot be parsed")
		causes.add(2, "quote file cannot be parsed")
	case quoteKind == "size-field-boundary":
		// a binary quote one of whose size / type fields carries a boundary value of its width (as C10
		// enumerates them against the library): the tool must refuse it or judge it, not crash
		inform = "bin"
		raw, regs := q.BytesRegions()
		names := []string{"sigdatalen", "cdtype", "cdsize", "authlen", "pctype", "pcsize"}
		nf := 1 + t.Draw(2)
		for i := 0; i < nf; i++ {
			name := names[t.Draw(len(names))]
			for _, rg := range regs {
				if rg.Name != name {
					continue
				}
				max := uint64(1)<<(8*rg.Len) - 1
				var cur uint64
				for k := rg.Len - 1; k >= 0; k-- {
					cur = cur<<8 | uint64(raw[rg.Off+k])
				}
				vs := []uint64{0, 1, cur - 1, cur + 1, cur / 2, max, max - 1, max - uint64(t.Draw(1024)), max / 2, max/2 + 1, uint64(len(raw)), uint64(len(raw) - rg.Off)}
				vi := t.Draw(len(vs))
				v := vs[vi] & max
				for k := 0; k < rg.Len; k++ {
					raw[rg.Off+k] = byte(v >> (8 * k))
				}
				note("%s=boundary-value-%d", name, vi) // the value itself depends on encodings that change with the hour
			}
		}
		quoteBytes = raw
		anyExit = true
		r.Probe("binary_quote_with_boundary_size_field")
	case quoteKind == "message-with-short-field":
		// a quote message one of whose fixed-width header fields lost trailing bytes that were zero (or is absent
		// altogether): serialised back, it gives the very bytes that were signed — the tool must refuse it or
		// judge it, not crash on it
		if inform == "bin" {
			inform = []string{"proto", "textproto"}[t.Draw(2)]
		}
		which := t.Draw(3)
		keep := t.Draw(2) // 0: field absent, 1: one byte left
		switch which {
		case 0:
			for i := keep; i < 2; i++ {
				q.PceSvn[i] = 0
			}
		case 1:
			for i := keep; i < 2; i++ {
				q.QeSvn[i] = 0
			}
		default:
			for i := 4 * keep; i < 20; i++ {
				q.UserData[i] = 0
			}
		}
		q.SignBody(w.P.AK)
		m := q.Proto(0)
		switch which {
		case 0:
			m.Header.PceSvn = m.Header.PceSvn[:keep]
		case 1:
			m.Header.QeSvn = m.Header.QeSvn[:keep]
		default:
			m.Header.UserData = m.Header.UserData[:4*keep]
		}
		quoteBytes = marshalQuote(m, inform)
		note("short header field %d keep=%d", which, keep)
		anyExit = true
		r.Probe("quote_message_with_short_field")
	case quoteKind == "partial-message":
		if inform == "bin" {
			inform = "proto"
		}
		m := q.Proto(0)
		switch t.Draw(4) {
		case 0:
			m.Header = nil
		case 1:
			m.TdQuoteBody = nil
		case 2:
			m.SignedData = nil
		default:
			m.SignedData.CertificationData.QeReportCertificationData.QeReport = nil
		}
		quoteBytes = marshalQuote(m, inform)
		causes.add(2, "structurally partial quote message")
	default:
		switch inform {
		case "bin":
			quoteBytes = q.Bytes()
		default:
			quoteBytes = marshalQuote(q.Proto(0), inform)
		}
	}
	quotePath := write("quote."+inform, quoteBytes)
	viaStdin := t.Chance(1, 4)
	if viaStdin {
		if t.Bool() {
			args = append(args, "-in", "-", "-inform", inform) // "-" is the documented name of stdin
		} else {
			args = append(args, "-inform="+inform) // -in defaults to stdin
		}
		r.Probe("quote_on_stdin")
	} else {
		args = append(args, "-in", quotePath, "-inform", inform)
	}
	// output flags never change the verdict
	switch t.Draw(6) {
	case 0:
		args = append(args, "-quiet")
	case 1:
		args = append(args, "-verbosity=1")
	case 2:
		args = append(args, "--verbosity", "2")
	}
	note("quote=%s/%s", quoteKind, inform)

	// ---- root of trust and options: config and flags
	cfg := &ccpb.Config{}
	useConfig := t.Draw(4) != 0
	cfgText := t.Bool()
	rot := &ccpb.RootOfTrust{}
	rootsListed := ""
	bundleA := write("rootA.pem", w.A.Root.PEM())
	bundleC := write("rootC.pem", C.Root.PEM())
	// config side
	cfgCollateral, cfgCrl := false, false
	if useConfig {
		rk := t.Draw(6)
		if !allow(1) {
			rk = 1 + rk%2
		}
		switch rk {
		case 0:
		case 1:
			rot.CabundlePaths = []string{bundleA}
			rootsListed = "A"
		case 2:
			rot.Cabundles = []string{string(w.A.Root.PEM())}
			rootsListed = "A"
		case 3:
			rot.CabundlePaths = []string{bundleC}
			rootsListed = "C"
		case 4:
			rot.CabundlePaths = []string{bundleC}
			rot.Cabundles = []string{string(w.A.Root.PEM())}
			rootsListed = "AC"
		case 5:
			rot.CabundlePaths = []string{filepath.Join(dir, "missing.pem")}
			rootsListed = "broken"
		}
		cfgCollateral = t.Bool()
		cfgCrl = cfgCollateral && t.Bool()
		if few() && allow(2) {
			cfgCrl = true
		}
		rot.GetCollateral, rot.CheckCrl = cfgCollateral, cfgCrl
	}
	// flag side.  In half of the runs the flag names its bundles by paths relative to the working directory, and
	// the config file (if any) lives in another directory that holds files of the same names with OTHER
	// contents: a path given on the command line means what it means in the working directory
	relFlags := t.Bool()
	flagA, flagC := bundleA, bundleC
	if relFlags {
		flagA, flagC = "rootA.pem", "rootC.pem"
		os.MkdirAll(filepath.Join(dir, "conf"), 0o700)
		write(filepath.Join("conf", "rootA.pem"), C.Root.PEM())
		write(filepath.Join("conf", "rootC.pem"), w.A.Root.PEM())
		r.Probe("relative_flag_paths_with_config_elsewhere")
	}
	flagRoots := ""
	fr := t.Draw(8)
	if !allow(1) {
		fr = fr % 4
		if !useConfig {
			fr = 3 // something has to list the root
		}
	}
	switch fr {
	case 6: // only a foreign root: replaces whatever paths the config lists
		args = append(args, "-trusted_roots", flagC)
		flagRoots = "C"
		if strings.Contains(rootsListed, "A") && len(rot.CabundlePaths) > 0 {
			r.Probe("flag_roots_replace_config_paths")
		}
	case 0, 1, 2:
	case 3:
		args = append(args, "-trusted_roots", flagA)
		flagRoots = "A"
	case 4:
		args = append(args, "-trusted_roots", flagC+" , "+flagA)
		flagRoots = "AC"
	case 7: // a directory where a bundle file is expected (empty, or holding the root under another extension)
		d := filepath.Join(dir, "roots.d")
		os.MkdirAll(d, 0o700)
		if t.Bool() {
			write(filepath.Join("roots.d", "root.cer"), w.A.Root.PEM())
		}
		args = append(args, "-trusted_roots", d)
		flagRoots = "broken"
		r.Probe("trusted_roots_flag_names_a_directory")
	case 5:
		args = append(args, "-trusted_roots", filepath.Join(dir, "nope.pem"))
		flagRoots = "broken"
	}
	if flagRoots != "" {
		rootsListed = flagRoots // a flag, when given, overrides the config's paths (inline bundles stay)
		if len(rot.Cabundles) > 0 && flagRoots != "broken" && !strings.Contains(rootsListed, "A") {
			rootsListed += "A"
		}
	}
	effCollateral, effCrl := cfgCollateral, cfgCrl
	boolFlag := func(name string, eff *bool) {
		switch t.Draw(6) {
		case 0:
			args = append(args, "-"+name+"=true")
			*eff = true
		case 1:
			args = append(args, "-"+name+"=false")
			*eff = false
		case 2:
			if few() && allow(2) {
				args = append(args, "-"+name+"=maybe")
				causes.add(1, "malformed -"+name)
			}
		}
	}
	boolFlag("get_collateral", &effCollateral)
	boolFlag("check_crl", &effCrl)
	if effCrl && !effCollateral {
		causes.add(1, "check_crl without get_collateral")
	}
	note("roots=%q collateral=%v crl=%v", rootsListed, effCollateral, effCrl)
	switch {
	case rootsListed == "broken":
		causes.add(1, "a trusted-root bundle path does not exist")
	case !strings.Contains(rootsListed, "A"):
		causes.add(2, "the quote's root is not among the trusted roots")
	}

	// ---- policy: config and flags (recorded first, judged once the config's shape is known)
	policy := &ccpb.Policy{HeaderPolicy: &ccpb.HeaderPolicy{}, TdQuoteBodyPolicy: &ccpb.TDQuoteBodyPolicy{}}
	type fieldRec struct {
		name, sub string
		cs, fs    int
	}
	var recs []fieldRec
	flagMalformed := ""
	section = 0
	for _, f := range c19Fields {
		cs, fs := fAbsent, fAbsent
		if useConfig && t.Chance(1, 3) {
			cs = 1 + t.Draw(2)
			if few() {
				cs = fMalformed
			}
		}
		if t.Chance(1, 4) {
			fs = 1 + t.Draw(2)
			if few() {
				fs = fMalformed
			}
		}
		if !allow(3) {
			if cs != fAbsent {
				cs = fMatch
			}
			if fs != fAbsent {
				fs = fMatch
			}
		}
		val := func(state int) []byte {
			v := append([]byte(nil), f.get(w.Quote)...)
			switch state {
			case fMismatch:
				v[t.Draw(len(v))] ^= 1 << t.Draw(8)
			case fMalformed:
				v = append(v, 0x01) // one byte too long
			}
			return v
		}
		if cs != fAbsent {
			f.set(policy, val(cs))
		}
		if fs != fAbsent {
			fv := hex.EncodeToString(val(fs))
			if fs == fMalformed && t.Bool() {
				fv = "zz-not-hex-!!"
			}
			args = append(args, "-"+f.name+"="+fv)
			if fs == fMalformed {
				flagMalformed = f.name
			}
		}
		sub := "td_quote_body_policy"
		if f.name == "qe_vendor_id" {
			sub = "header_policy"
		}
		recs = append(recs, fieldRec{f.name, sub, cs, fs})
		if cs != fAbsent || fs != fAbsent {
			note("%s cfg=%s flag=%s", f.name, fStateNames[cs], fStateNames[fs])
			if cs != fAbsent && fs != fAbsent && cs != fs {
				r.Probe("flag_overrides_config_field")
			}
		}
	}
	section = 1
	// minimum SVNs: config value (header_policy) and flag value
	qeSvn := int(binary.LittleEndian.Uint16(w.Quote.QeSvn[:]))
	pceSvn := int(binary.LittleEndian.Uint16(w.Quote.PceSvn[:]))
	type svnRec struct {
		name     string
		have     int
		cfgMin   int
		cfgGiven bool
		flagMin  int
		flagSet  bool
	}
	var svns []*svnRec
	var cfgSvnTooBig []string
	svn := func(name string, have int, set func(v uint32)) {
		rec := &svnRec{name: name, have: have}
		if useConfig && t.Chance(1, 3) {
			rec.cfgGiven = true
			ck := t.Draw(3)
			if !allow(3) && ck == 1 {
				ck = 0
			}
			switch ck {
			case 0:
				rec.cfgMin = have
			case 1:
				rec.cfgMin = have + 1
				if rec.cfgMin > 65535 {
					rec.cfgMin = have
				}
			case 2:
				rec.cfgMin = 0
			}
			set(uint32(rec.cfgMin))
		}
		if useConfig && allow(3) && t.Chance(1, 12) {
			// a minimum that does not fit 16 bits is a malformed config
			rec.cfgGiven = true
			big := []uint32{65536, 131072, 666666, 0xffffffff}[t.Draw(4)]
			set(big)
			rec.cfgMin = 0
			cfgSvnTooBig = append(cfgSvnTooBig, name)
			r.Probe("svn_minimum_beyond_16_bits")
		}
		policyFocus := calm && focus == 3
		if t.Chance(1, 3) || (policyFocus && t.Chance(1, 3)) {
			fk := t.Draw(5)
			if policyFocus && t.Chance(1, 3) {
				fk = 4 // a run that is otherwise in order and whose only defect is a malformed minimum
			}
			if !allow(3) && (fk == 1 || fk == 4) {
				fk = 0
			}
			switch fk {
			case 0:
				args = append(args, fmt.Sprintf("-%s=%d", name, have))
				rec.flagSet, rec.flagMin = true, have
			case 1:
				if have < 65535 {
					args = append(args, fmt.Sprintf("-%s=%d", name, have+1))
					rec.flagSet, rec.flagMin = true, have+1
				}
			case 2:
				args = append(args, fmt.Sprintf("-%s=0", name)) // an explicit 0 overrides the config
				rec.flagSet, rec.flagMin = true, 0
				if rec.cfgGiven {
					r.Probe("explicit_zero_flag_overrides_config")
				}
			case 3:
				// the tool's documented spellings: decimal (leading zeros are still decimal), 0x, 0o, 0b
				sp := []string{fmt.Sprintf("0x%x", have), fmt.Sprintf("0o%o", have), fmt.Sprintf("0b%b", have), fmt.Sprintf("0%d", have), fmt.Sprintf("000%d", have), fmt.Sprintf("0X%X", have)}[t.Draw(6)]
				args = append(args, "-"+name+"="+sp)
				rec.flagSet, rec.flagMin = true, have
				r.Probe("number_spelling_variants")
			case 4:
				bad := []string{"lots", "65536", "131072", "666666", "0x10000", "1_0", "0x_1", "-1", "1e3", "0x"}[t.Draw(10)]
				args = append(args, "-"+name+"="+bad)
				flagMalformed = name
				if bad != "lots" {
					r.Probe("svn_minimum_beyond_16_bits")
				}
			}
		}
		svns = append(svns, rec)
	}
	svn("minimum_qe_svn", qeSvn, func(v uint32) { policy.HeaderPolicy.MinimumQeSvn = v })
	svn("minimum_pce_svn", pceSvn, func(v uint32) { policy.HeaderPolicy.MinimumPceSvn = v })
	section = 2
	// minimum TEE TCB SVN (config or flag) and RTMRs (flag)
	teeState, teeInConfig := fAbsent, false
	if t.Chance(1, 4) {
		min := append([]byte(nil), w.Quote.TeeTcbSvn[:]...)
		teeState = 1 + t.Draw(2)
		if !allow(3) {
			teeState = fMatch
		}
		if teeState == fMismatch {
			i := t.Draw(16)
			if min[i] < 255 {
				min[i]++
			} else {
				teeState = fMatch
			}
		}
		if few() && allow(3) {
			teeState = fMalformed
			min = min[:15]
		}
		if useConfig && t.Bool() {
			teeInConfig = true
			policy.TdQuoteBodyPolicy.MinimumTeeTcbSvn = min
		} else if teeState == fMalformed {
			args = append(args, "-minimum_tee_tcb_svn="+hex.EncodeToString(append(min, 1, 2, 3)))
			flagMalformed = "minimum_tee_tcb_svn"
		} else {
			args = append(args, "-minimum_tee_tcb_svn="+hex.EncodeToString(min))
		}
		note("minimum_tee_tcb_svn %s in-config=%v", fStateNames[teeState], teeInConfig)
	}
	section = 3
	// any_mr_td (config only): an allow-list next to, and independent of, the exact mr_td expectation
	anyState := fAbsent
	if useConfig && (t.Chance(1, 4) || singleSection == 3) {
		anyState = 1 + t.Draw(2)
		if !allow(3) {
			anyState = fMatch
		}
		list := [][]byte{t.Bytes(48)}
		if anyState == fMatch {
			list = append(list, append([]byte(nil), w.Quote.MrTd[:]...))
			if t.Bool() {
				list[0], list[1] = list[1], list[0]
			}
		} else {
			list = append(list, t.Bytes(48))
		}
		policy.TdQuoteBodyPolicy.AnyMrTd = list
		note("any_mr_td %s in-config", fStateNames[anyState])
	}
	section = 4
	rtmrsBad := false
	if t.Chance(1, 5) {
		var hexes []string
		rtmrsBad = t.Draw(3) == 0 && allow(3)
		for i := 0; i < 4; i++ {
			v := append([]byte(nil), w.Quote.Rtmr[i][:]...)
			if rtmrsBad && i == 2 {
				v[5] ^= 4
			}
			hexes = append(hexes, hex.EncodeToString(v))
		}
		args = append(args, "-rtmrs="+strings.Join(hexes, ","))
		note("rtmrs flag bad=%v", rtmrsBad)
	}

	// ---- the config file: sub-messages absent, corruption
	subAbsent := ""
	configCorrupt := false
	if useConfig {
		cfg.RootOfTrust, cfg.Policy = rot, policy
		sk := t.Draw(10)
		if !allow(5) {
			sk = 9
		}
		switch sk {
		case 0:
			cfg.Policy = &ccpb.Policy{TdQuoteBodyPolicy: policy.TdQuoteBodyPolicy}
			subAbsent = "header_policy"
		case 1:
			cfg.Policy = &ccpb.Policy{HeaderPolicy: policy.HeaderPolicy}
			subAbsent = "td_quote_body_policy"
		case 2:
			cfg.Policy = &ccpb.Policy{}
			subAbsent = "both"
		}
		if subAbsent != "" {
			r.Probe("config_sub_policy_absent")
		}
		var cb []byte
		name := "config.bin"
		if cfgText {
			name = "config.textproto"
			cb, err = prototext.Marshal(cfg)
		} else {
			cb, err = proto.Marshal(cfg)
		}
		if err != nil {
			panic(err)
		}
		if few() && few() && allow(5) {
			cb = append([]byte{0xff, 0xfe, 0x07}, cb...)
			configCorrupt = true
			note("config corrupted")
		}
		if relFlags {
			name = filepath.Join("conf", name)
		}
		args = append(args, "-config", write(name, cb))
		note("config=%s sub-absent=%q", name, subAbsent)
	}
	// ---- judge the policy side
	dropped := func(sub string) bool { return subAbsent == "both" || subAbsent == sub }
	policyFails := ""
	for _, rec := range recs {
		cs := rec.cs
		if dropped(rec.sub) {
			cs = fAbsent
		}
		eff := cs
		if rec.fs != fAbsent {
			eff = rec.fs
		}
		if cs == fMalformed && rec.fs == fAbsent {
			causes.add(1, "config field "+rec.name+" has the wrong length")
		}
		if eff == fMismatch {
			policyFails = rec.name
		}
	}
	for _, sv := range svns {
		eff := 0
		if sv.cfgGiven && !dropped("header_policy") {
			eff = sv.cfgMin
		}
		if sv.flagSet {
			eff = sv.flagMin
		}
		if eff > sv.have {
			policyFails = sv.name
		}
		note("%s effective-min=%d quote=%d", sv.name, eff, sv.have)
	}
	if teeState != fAbsent && !(teeInConfig && dropped("td_quote_body_policy")) {
		switch teeState {
		case fMismatch:
			policyFails = "minimum_tee_tcb_svn"
		case fMalformed:
			if teeInConfig {
				causes.add(1, "config minimum_tee_tcb_svn has the wrong length")
				r.Probe("config_wrong_length_minimum_tee_tcb_svn")
			}
		}
	}
	if rtmrsBad {
		policyFails = "rtmrs"
	}
	if anyState == fMismatch && !dropped("td_quote_body_policy") {
		policyFails = "any_mr_td"
		r.Probe("config_any_mr_td_without_the_quotes_value")
	}
	if flagMalformed != "" {
		causes.add(1, "malformed -"+flagMalformed)
	}
	for _, big := range cfgSvnTooBig {
		if dropped("header_policy") {
			break
		}
		overridden := false
		for _, sv := range svns {
			if sv.name == big && sv.flagSet {
				overridden = true
			}
		}
		if !overridden {
			causes.add(1, "config "+big+" does not fit 16 bits")
		}
	}
	if policyFails != "" {
		causes.add(4, "policy expectation "+policyFails+" not met")
	}
	if configCorrupt {
		causes = c19Causes{1: "config file cannot be deserialised"}
	}

	// ---- the network
	env := append(os.Environ(), "VERIF_PCS_DIR=")
	netKind := "honest"
	if effCollateral {
		pcsDir := filepath.Join(dir, "pcs")
		os.Mkdir(pcsDir, 0o700)
		nk := t.Draw(9)
		if !allow(4) {
			nk = 8
		}
		switch nk {
		case 0:
			netKind = "tcb-transport-error"
			causes.add(3, "TCB Info could not be downloaded")
		case 1:
			netKind = "qe-transport-error"
			causes.add(3, "QE Identity could not be downloaded")
		case 2:
			netKind = "pckcrl-transport-error"
			if effCrl {
				causes.add(3, "PCK CRL could not be downloaded")
			}
		case 3:
			netKind = "rootcrl-transport-error"
			if effCrl {
				causes.add(3, "Root CA CRL could not be downloaded")
			}
		case 4:
			netKind = "tcb-garbage-body"
			causes.add(2, "TCB Info response unparseable")
			causes.add(3, "TCB Info response unparseable")
		case 5:
			netKind = "tcb-level-out-of-date"
			w.Tcb.Levels[w.LevelIdx].Status = "OutOfDate"
			w.Publish()
			causes.add(2, "platform TCB level is OutOfDate")
		case 6:
			netKind = "unreachable"
			causes.add(3, "network unreachable")
		}
		if netKind != "unreachable" {
			c19WritePCS(pcsDir, w, netKind)
			env = append(os.Environ(), "VERIF_PCS_DIR="+pcsDir)
		}
		r.Fault("net:"+netKind, netKind != "honest")
	}
	note("net=%s", netKind)
	// the retry settings do not change what a download failure is: timeout / delay of zero or a nanosecond are legal
	args = append(args, "-timeout", []string{"150ms", "150ms", "40ms", "0", "1ns"}[t.Draw(5)], "-max_retry_delay", []string{"30ms", "30ms", "1ms", "0", "1ns"}[t.Draw(5)])

	// ---- run the tool
	cmd := exec.Command(bin, args...)
	cmd.Dir = dir
	cmd.Env = env
	if viaStdin {
		cmd.Stdin = bytes.NewReader(quoteBytes)
	}
	var stderr, stdout bytes.Buffer
	cmd.Stderr, cmd.Stdout = &stderr, &stdout
	done := make(chan error, 1)
	if err := cmd.Start(); err != nil {
		panic(err)
	}
	go func() { done <- cmd.Wait() }()
	var werr error
	select {
	case werr = <-done:
	case <-time.After(60 * time.Second):
		cmd.Process.Kill()
		r.Violate("C19:hang", "the tool did not exit within 60 s: %s", strings.Join(desc, "; "))
		return
	}
	code := 0
	if ee, ok := werr.(*exec.ExitError); ok {
		code = ee.ExitCode()
	} else if werr != nil {
		panic(werr)
	}
	r.Eval()
	if len(causes) == 0 {
		causes.add(0, "nothing is wrong")
	}
	se := stderr.String()
	crashed := strings.Contains(se, "panic:") || strings.Contains(se, "goroutine ") || strings.Contains(se, "runtime error")
	r.Eventf("%s => exit %d crashed=%v expected one of {%s}", strings.Join(desc, "; "), code, crashed, causes)
	r.State("quote=%s roots=%s coll=%v crl=%v net=%s cfg=%v policyfail=%v exit=%d", quoteKind, rootsListed, effCollateral, effCrl, netKind, useConfig, policyFails != "", code)
	if crashed {
		site := "unknown"
		for _, l := range strings.Split(se, "\n") {
			if strings.HasPrefix(l, "main.") {
				site = strings.TrimSpace(l)
				if j := strings.IndexByte(site, '('); j >= 0 {
					site = site[:j]
				}
				break
			}
			if i := strings.Index(l, "go-tdx-guest/"); i >= 0 && !strings.Contains(l, "/repo/") {
				site = strings.TrimSpace(l[i+len("go-tdx-guest/"):])
				if j := strings.IndexByte(site, '('); j >= 0 {
					site = site[:j]
				}
				break
			}
		}
		r.Violate("C19:crash:"+site, "the tool crashed (exit %d): %s :: stderr: %s", code, strings.Join(desc, "; "), firstLines(se, 6))
		return
	}
	if anyExit {
		if code < 0 || code > 4 {
			r.Violate("C19:exit-code-outside-contract", "exit %d: %s :: stderr: %s", code, strings.Join(desc, "; "), firstLines(se, 3))
		}
		return
	}
	if _, ok := causes[code]; !ok {
		cls := fmt.Sprintf("C19:exit-%d-expected-%s", code, causeCodes(causes))
		if _, net := causes[3]; net && code == 2 {
			cls = "C19:download-failure-exits-2"
		} else if code == 0 {
			cls = "C19:exit-0-although-" + causeCodes(causes)
		}
		r.Violate(cls, "exit %d, but the tool contract gives {%s}: %s :: stderr: %s", code, causes, strings.Join(desc, "; "), firstLines(se, 3))
	}
	if code == 0 {
		r.Probe("exit_0")
	}
	if code == 3 {
		r.Probe("exit_3")
	}
	if code == 4 {
		r.Probe("exit_4")
	}
	r.Sample("%s => exit %d", strings.Join(desc, "; "), code)
}

func causeCodes(c c19Causes) string {
	var ks []int
	for k := range c {
		ks = append(ks, k)
	}
	sort.Ints(ks)
	var s []string
	for _, k := range ks {
		s = append(s, fmt.Sprint(k))
	}
	return strings.Join(s, "or")
}

func firstLines(s string, n int) string {
	ls := strings.Split(strings.TrimSpace(s), "\n")
	if len(ls) > n {
		ls = ls[:n]
	}
	out := strings.Join(ls, " | ")
	if len(out) > 600 {
		out = out[:600]
	}
	return out
}

func marshalQuote(m *pb.QuoteV4, inform string) []byte {
	var b []byte
	var err error
	if inform == "textproto" {
		b, err = prototext.Marshal(m)
	} else {
		b, err = proto.Marshal(m)
	}
	if err != nil {
		panic(err)
	}
	return b
}

// c19WritePCS materialises the simulated PCS as files for the tool's hook getter.
func c19WritePCS(dir string, w *world.World, kind string) {
	put := func(url string, ep *world.Endpoint, fail bool, garbage bool) {
		sum := sha256.Sum256([]byte(url))
		base := filepath.Join(dir, hex.EncodeToString(sum[:]))
		if fail {
			os.WriteFile(base+".err", []byte("connection refused (simulated)"), 0o600)
			return
		}
		body := ep.Body
		if garbage {
			body = []byte("<html>502 Bad Gateway</html>")
		}
		os.WriteFile(base+".body", body, 0o600)
		var sb strings.Builder
		for _, k := range core.SortedKeys(ep.Hdr) {
			for _, v := range ep.Hdr[k] {
				sb.WriteString(k + ": " + v + "\n")
			}
		}
		os.WriteFile(base+".hdr", []byte(sb.String()), 0o600)
	}
	fm := hex.EncodeToString(w.P.Ext.FMSPC[:])
	for _, k := range core.SortedKeys(w.PCS.Tcb) {
		put("https://api.trustedservices.intel.com/tdx/certification/v4/tcb?fmspc="+fm, w.PCS.Tcb[k], kind == "tcb-transport-error", kind == "tcb-garbage-body")
	}
	put("https://api.trustedservices.intel.com/tdx/certification/v4/qe/identity", w.PCS.QE, kind == "qe-transport-error", false)
	put("https://api.trustedservices.intel.com/sgx/certification/v4/pckcrl?ca="+w.CAID+"&encoding=der", w.PCS.PckCrl[w.CAID], kind == "pckcrl-transport-error", false)
	put(world.RootCRLURL, w.PCS.ByURL[world.RootCRLURL], kind == "rootcrl-transport-error", false)
}

func init() {
	register(&core.Check{
		ID:    "C19",
		Level: "exploration",
		Rule: "one process of the built tools/check binary (tag-guarded getter hook) per run, in a per-run directory populated from the tape: quote valid / forged body or QE signature / unparsable / structurally partial message / binary quote with boundary values in its size and type fields / message with a header field that lost its zero tail, in bin / proto / textproto form; config none / binary / .textproto with root-of-trust (bundle file, inline PEM, foreign root, mixed, missing file) and options; each of 9 exact-match fields independently absent / matching / mismatching / malformed in config and in flags; minimum SVN flags incl. explicit 0 and hex; minimum TEE TCB SVN and RTMR expectations; an any_mr_td allow-list in the config with or without the quote's value; absent sub-policies; corrupted config; network honest / four kinds of transport failure / garbage body / OutOfDate level / unreachable (no hook: the sandbox's sealed network). The exit status must lie in the set the tool contract gives for the injected causes (singleton when there is one cause), and stderr must show no Go panic. " +
			"distinct = (quote kind, roots, options, network, config present, policy failing, exit status)",
		Assumptions: []string{
			"worlds are generated around the real wall clock (the tool has no time seam); validity windows are weeks to years wide",
			"with several simultaneous causes any of their exit codes is accepted (the property does not order them); an unparsable quote may exit 1 or 2; an unparseable collateral response may exit 2 or 3",
			"retry settings are passed as flags (-timeout 150ms) so that transport failures cost 0.15 s of real time; real time is used only as a watchdog",
		},
		RealStub: map[string]string{"tools/check binary": "real (built with -tags verif: collateral getter reads the simulated PCS from files)", "verify / validate / abi": "real", "disk (config, quote, bundles)": "real files in a per-run temp dir", "network": "simulated PCS through the hook, or the sandbox's sealed network", "trust.SimpleHTTPSGetter": "exercised only in the unreachable-network case"},
		Runs: func(tier string) int {
			if tier == "thorough" {
				return 30000
			}
			return 2500
		},
		Run:       c19Run,
		MustProbe: []string{"exit_0", "exit_3", "exit_4", "flag_overrides_config_field", "config_sub_policy_absent", "quote_on_stdin", "binary_quote_with_boundary_size_field", "quote_message_with_short_field"},
	})
}
