package checks

import (
	"bytes"
	"crypto/sha512"
	"errors"
	"flag"
	"fmt"
	"os"
	"path/filepath"
	"sync"
	"testing"
	"testing/synctest"
	"time"

	"github.com/google/go-tdx-guest/abi"
	"github.com/google/go-tdx-guest/client"
	labi "github.com/google/go-tdx-guest/client/linuxabi"
	"google.golang.org/protobuf/proto"
	"verif/sim/core"
	"verif/sim/world"
)

// C15 — the guest client against a scripted, faulty guest device / quote provider.

type c15Outcome struct {
	err    bool   // ioctl returns an error
	result uint64 // ioctl result code when err is false
}

var c15Outcomes = []c15Outcome{{true, 0}, {false, 0}, {false, 1}, {false, 7}, {false, 8}, {false, 9}, {false, 1 << 32}, {false, 9 << 32}, {false, 1 << 63}, {false, 0xffffffff}}

const c15Buf = 16384 // the buffer the protocol gives the device (4*4*1024), from the ABI description, not from the repo's constant

type c15Script struct {
	report   c15Outcome
	quote    c15Outcome
	status   uint64
	outLen   uint32
	bufKind  int // 0 valid quote, 1 garbage, 2 TD report left in place
	tdReport [1024]byte
	quoteRaw []byte
	garbage  []byte
	// thenOK: only the FIRST quote request is answered as scripted; a later request in the same call
	// would be answered with status 0 and the valid quote (a device that is busy at first)
	thenOK bool
}

type c15Device struct {
	s *c15Script
	// observations
	nReport, nQuote, nOther int
	sawReportData           [64]byte
	sawTDReport             [1024]byte
	sawInLen                uint32
	sawVersion              uint64
	sawLength               uint64
	wrote                   []byte // what the device left in the buffer (whole buffer)
	opened, closed          int
}

func (d *c15Device) Open(string) error { d.opened++; return nil }
func (d *c15Device) Close() error      { d.closed++; return nil }

func (d *c15Device) Ioctl(cmd uintptr, arg any) (uintptr, error) {
	switch req := arg.(type) {
	case *labi.TdxReportReq:
		d.nReport++
		d.sawReportData = req.ReportData
		if d.s.report.err {
			return 0, errors.New("scripted: report ioctl failed (EIO)")
		}
		// the device writes a TD report even when it signals a failure code
		req.TdReport = d.s.tdReport
		return uintptr(d.s.report.result), nil
	case *labi.TdxQuoteReq:
		d.nQuote++
		hdr, ok := req.Buffer.(*labi.TdxQuoteHdr)
		if !ok {
			d.nOther++
			return 0, errors.New("scripted: unexpected buffer type")
		}
		copy(d.sawTDReport[:], hdr.Data[:1024])
		d.sawInLen = hdr.InLen
		d.sawVersion = hdr.Version
		d.sawLength = req.Length
		if d.s.quote.err {
			return 0, errors.New("scripted: quote ioctl failed (EBUSY)")
		}
		switch d.s.bufKind {
		case 0:
			copy(hdr.Data[:], d.s.quoteRaw)
		case 1:
			copy(hdr.Data[:], d.s.garbage)
		case 2: // leave the TD report where the guest put it
		}
		hdr.Status = d.s.status
		hdr.OutLen = d.s.outLen
		if d.s.thenOK && d.nQuote >= 2 {
			copy(hdr.Data[:], d.s.quoteRaw)
			hdr.Status, hdr.OutLen = 0, uint32(len(d.s.quoteRaw))
		}
		d.wrote = append([]byte(nil), hdr.Data[:]...)
		return uintptr(d.s.quote.result), nil
	}
	d.nOther++
	return 0, fmt.Errorf("scripted: unknown request %T", arg)
}

type c15Provider struct {
	supported bool
	data      []byte
	err       error
	nSupp     int
	nGet      int
	sawRD     [64]byte
}

func (p *c15Provider) IsSupported() error {
	p.nSupp++
	if p.supported {
		return nil
	}
	return errors.New("scripted: configfs-tsm not available")
}
func (p *c15Provider) GetRawQuote(rd [64]byte) ([]uint8, error) {
	p.nGet++
	p.sawRD = rd
	return p.data, p.err
}

var c15FlagMu sync.Mutex

func c15Run(r *core.Run) {
	t := r.T
	// World: what the device holds.
	var tdReport [1024]byte
	copy(tdReport[:], t.Bytes(1024))
	w := world.NewWorld(t, world.Cfg{AuthLen: []int{-1, 32, 33, 200}[t.Draw(4)], ExtraBytes: t.Draw(3) * 7, NoPCS: true})
	quoteRaw := w.Quote.Bytes()
	garbage := t.Bytes(c15Buf)
	// two statuses that are none of the named codes: one with the top bit clear, one with it set
	arbLow := (t.U64() | 2) &^ (1 << 63)
	if t.Chance(1, 3) {
		arbLow = []uint64{1, 2, 1 << 32, 0x7fffffffffffffff}[t.Draw(4)]
	}
	arbHigh := t.U64() | 1<<63 | 2
	if arbHigh == 0xffffffffffffffff {
		arbHigh = 0x8000000000001234
	}
	statuses := []uint64{0, 0xffffffffffffffff, 0x8000000000000000, 0x8000000000000001, arbLow, arbHigh}
	statusNames := []string{"0", "inflight", "error", "unavailable", "arbitrary-top-bit-clear", "arbitrary-top-bit-set"}
	outLens := []uint32{0, 1, uint32(len(quoteRaw)), c15Buf, c15Buf + 1, 0xffffffff}
	outNames := []string{"0", "1", "exact", "buffer", "buffer+1", "2^32-1"}
	rdKind := r.Index % 3
	var rd [64]byte
	switch rdKind {
	case 1:
		for i := range rd {
			rd[i] = 0xff
		}
	case 2:
		copy(rd[:], t.Bytes(64))
	}
	repIdx := (r.Index / 3) % len(c15Outcomes)
	rep := c15Outcomes[repIdx]
	r.Eventf("world: quoteLen=%d rdKind=%d report=%+v arbitrary statuses=%#x,%#x", len(quoteRaw), rdKind, rep, arbLow, arbHigh)

	var kept []c15Kept
	for qi, qo := range c15Outcomes {
		for si, st := range statuses {
			for oi, ol := range outLens {
				for bk := 0; bk < 3; bk++ {
					name := fmt.Sprintf("rep=%d,q=%d,st=%s,out=%s,buf=%d,rd=%d", repIdx, qi, statusNames[si], outNames[oi], bk, rdKind)
					if !r.Item(name) {
						continue
					}
					s := &c15Script{report: rep, quote: qo, status: st, outLen: ol, bufKind: bk, tdReport: tdReport, quoteRaw: quoteRaw, garbage: garbage}
					c15Judge(r, name, s, rd, statusNames[si], outNames[oi], &kept)
					r.EndItem()
				}
			}
		}
	}

	// A device that answers the first quote request with a failure status and would answer a repeated
	// request with the quote: the outcome of the call is the failure.
	for si, st := range statuses {
		if st == 0 {
			continue
		}
		name := fmt.Sprintf("rep=%d,q=1,st=%s-then-ok,out=exact,buf=0,rd=%d", repIdx, statusNames[si], rdKind)
		if !r.Item(name) {
			continue
		}
		s := &c15Script{report: rep, quote: c15Outcomes[1], status: st, outLen: uint32(len(quoteRaw)), bufKind: 0, tdReport: tdReport, quoteRaw: quoteRaw, garbage: garbage, thenOK: true}
		c15Judge(r, name, s, rd, statusNames[si]+"-then-ok", "exact", &kept)
		r.EndItem()
	}
	// Several callers fetch quotes through ONE device at overlapping (simulated) times.
	if r.Item("device:concurrent-callers") {
		c15Concurrent(r)
		r.EndItem()
	}
	// A provider whose support changes between calls through the SAME provider value.
	if r.Item("provider:support-toggles") {
		c15Toggle(r, quoteRaw, rd)
		r.EndItem()
	}
	// Quote provider behaviours.
	for _, supported := range []bool{true, false} {
		for dk := 0; dk < 6; dk++ {
			for _, withErr := range []bool{false, true} {
				name := fmt.Sprintf("provider:supported=%v,data=%d,err=%v", supported, dk, withErr)
				if !r.Item(name) {
					continue
				}
				c15JudgeProvider(r, name, supported, dk, withErr, quoteRaw, rd)
				r.EndItem()
			}
		}
	}
}

// c15SharedDev is a device used by several callers at once.  Each request takes simulated time (a
// function of its content), so that the requests of different callers overlap in an order the seed
// decides; what it answers depends only on the request: the TD report embeds the report data, the
// quote embeds the TD report.
type c15SharedDev struct {
	mu      sync.Mutex
	reports map[[64]byte]int
	quotes  int
	latR    func(rd [64]byte) time.Duration
	latQ    func(td []byte) time.Duration
}

func c15ReportFor(rd [64]byte) (td [1024]byte) {
	copy(td[:], rd[:])
	h := sha512.Sum384(rd[:])
	for i := 64; i < 1024; i++ {
		td[i] = h[i%48] ^ byte(i)
	}
	return
}

func c15QuoteFor(td []byte) []byte {
	h := sha512.Sum384(td)
	q := append([]byte("QUOTE:"), td[:64]...)
	for i := 0; i < 600+int(h[0]); i++ {
		q = append(q, h[i%48]^byte(i>>3))
	}
	return q
}

func (d *c15SharedDev) Open(string) error { return nil }
func (d *c15SharedDev) Close() error      { return nil }
func (d *c15SharedDev) Ioctl(cmd uintptr, arg any) (uintptr, error) {
	switch req := arg.(type) {
	case *labi.TdxReportReq:
		rd := req.ReportData
		d.mu.Lock()
		d.reports[rd]++
		d.mu.Unlock()
		time.Sleep(d.latR(rd))
		req.TdReport = c15ReportFor(rd)
		return 0, nil
	case *labi.TdxQuoteReq:
		hdr, ok := req.Buffer.(*labi.TdxQuoteHdr)
		if !ok {
			return 0, errors.New("scripted: unexpected buffer type")
		}
		td := append([]byte(nil), hdr.Data[:1024]...)
		d.mu.Lock()
		d.quotes++
		d.mu.Unlock()
		time.Sleep(d.latQ(td))
		q := c15QuoteFor(td)
		copy(hdr.Data[:], q)
		hdr.Status, hdr.OutLen = 0, uint32(len(q))
		return 0, nil
	}
	return 0, fmt.Errorf("scripted: unknown request %T", arg)
}

// c15Concurrent: 2-4 callers with different report data on one device, inside a fake-clock bubble.  Each
// must see its own report data reach the device and get back the quote the device made for it.
func c15Concurrent(r *core.Run) {
	t := r.T
	n := 2 + t.Draw(3)
	rds := make([][64]byte, n)
	starts := make([]time.Duration, n)
	for i := range rds {
		copy(rds[i][:], t.Bytes(64))
		starts[i] = time.Duration(t.Draw(4)) * 10 * time.Millisecond
	}
	if t.Chance(1, 4) {
		rds[1] = rds[0] // two callers with the very same report data
	}
	lr, lq := 1+t.Draw(50), 1+t.Draw(200)
	dev := &c15SharedDev{reports: map[[64]byte]int{},
		latR: func(rd [64]byte) time.Duration { return time.Duration(lr+int(rd[0])%40) * time.Millisecond },
		latQ: func(td []byte) time.Duration { return time.Duration(lq+int(td[1])%300) * time.Millisecond }}
	type resT struct {
		data []byte
		out  core.Outcome
	}
	res := make([]resT, n)
	leak := ""
	func() {
		defer func() {
			if p := recover(); p != nil {
				leak = fmt.Sprint(p)
			}
		}()
		synctest.Test(r.TB, func(*testing.T) {
			var wg sync.WaitGroup
			for i := 0; i < n; i++ {
				i := i
				wg.Add(1)
				go func() {
					defer wg.Done()
					time.Sleep(starts[i])
					res[i].out = core.Call(func() error {
						var err error
						res[i].data, err = client.GetRawQuote(dev, rds[i])
						return err
					})
				}()
			}
			wg.Wait()
		})
	}()
	r.Eval()
	r.State("concurrent callers n=%d", n)
	r.Eventf("concurrent callers n=%d starts=%v -> report requests for %d distinct report data, %d quote requests", n, starts, len(dev.reports), dev.quotes)
	r.Fault("sched:overlapping_callers_on_one_device", true)
	r.Probe("concurrent_callers_on_one_device")
	if leak != "" {
		r.Violate("C15:concurrent:goroutines-left-blocked", "after %d overlapping GetRawQuote calls on one device goroutines were still blocked: %s", n, leak)
		return
	}
	for i := 0; i < n; i++ {
		if res[i].out.Panicked {
			r.Violate("C15:concurrent:panic", "caller %d of %d overlapping callers: GetRawQuote panicked: %s", i, n, res[i].out.PanicVal)
			continue
		}
		if res[i].out.Err != nil {
			r.Violate("C15:concurrent:good-outcome-rejected", "caller %d of %d overlapping callers: the device served every request, yet: %v", i, n, res[i].out.Err)
			continue
		}
		if dev.reports[rds[i]] == 0 {
			r.Violate("C15:concurrent:report-data-not-relayed", "caller %d of %d overlapping callers: its 64 bytes of report data never reached a report request", i, n)
		}
		td := c15ReportFor(rds[i])
		if want := c15QuoteFor(td[:]); !bytes.Equal(res[i].data, want) {
			whose := "no caller's"
			for j := range rds {
				tj := c15ReportFor(rds[j])
				if j != i && bytes.Equal(res[i].data, c15QuoteFor(tj[:])) {
					whose = fmt.Sprintf("caller %d's", j)
				}
			}
			r.Violate("C15:concurrent:wrong-quote", "caller %d of %d overlapping callers got %s quote (%d bytes) instead of the one the device made from its own TD report", i, n, whose, len(res[i].data))
		}
	}
}

// c15Kept remembers results handed to the caller earlier in the run together with a private
// copy of what the device had written: a later fetch must not change them (no buffer re-use).
type c15Kept struct {
	name string
	data []byte
	want []byte
}

func c15CheckKept(r *core.Run, kept *[]c15Kept, after string) {
	for i := range *kept {
		k := &(*kept)[i]
		if !bytes.Equal(k.data, k.want) {
			r.Violate("C15:earlier-result-changed-by-later-call", "the quote returned by the earlier call %q was changed by the later call %q (the returned bytes alias a re-used buffer)", k.name, after)
			k.want = append([]byte(nil), k.data...) // report once
		}
	}
}

func c15Judge(r *core.Run, name string, s *c15Script, rd [64]byte, stName, olName string, kept *[]c15Kept) {
	defer c15CheckKept(r, kept, name)
	dev := &c15Device{s: s}
	var data []byte
	out := core.Call(func() error {
		var err error
		data, err = client.GetRawQuote(dev, rd)
		return err
	})
	r.Eval()
	reportOK := !s.report.err && s.report.result == 0
	quoteOK := !s.quote.err && s.quote.result == 0
	good := reportOK && quoteOK && s.status == 0 && s.outLen > 0 && s.outLen <= c15Buf
	if s.thenOK {
		r.Fault("device_busy_at_first_then_ready", dev.nQuote > 0)
	}
	r.Eventf("%s -> acc=%v panic=%v len=%d", name, out.Accepted(), out.Panicked, len(data))
	r.State("rep=%v,q=%v/%d,st=%s,out=%s,buf=%d,%v", reportOK, s.quote.err, s.quote.result, stName, olName, s.bufKind, out.Accepted())
	if !reportOK {
		r.Fault("report_ioctl_failure", true)
	}
	if reportOK && !quoteOK {
		r.Fault("quote_ioctl_failure", dev.nQuote > 0)
	}
	if reportOK && quoteOK && s.status != 0 {
		r.Fault("quote_status_"+stName, true)
	}
	if reportOK && quoteOK && s.status == 0 && !good {
		r.Fault("outlen_"+olName, true)
		r.Probe("status0_bad_outlen_" + olName)
	}
	if s.bufKind != 0 && good {
		r.Fault("buffer_kind_"+fmt.Sprint(s.bufKind), true)
	}

	// what the device must have been asked
	if dev.nReport == 0 {
		r.Violate("C15:no-report-request", "%s: the device never saw a report request", name)
		return
	}
	if dev.sawReportData != rd {
		r.Violate("C15:report-data-altered", "%s: report request carried %x..., caller gave %x...", name, dev.sawReportData[:8], rd[:8])
	}
	if dev.nQuote > 0 {
		if dev.sawTDReport != s.tdReport {
			r.Violate("C15:td-report-not-relayed", "%s: quote request did not carry the 1024-byte TD report the device returned", name)
		}
		if dev.sawInLen != 1024 {
			r.Violate("C15:inlen", "%s: quote request InLen=%d, want 1024", name, dev.sawInLen)
		}
	}
	cond := fmt.Sprintf("rep=%s,q=%s,status=%s,outlen=%s", okStr(reportOK), okStr(quoteOK), stName, olName)
	if out.Panicked {
		r.Violate("C15:panic:"+cond, "%s: client.GetRawQuote panicked: %s [%s]", name, out.PanicVal, out.Stack)
		return
	}
	if good {
		if out.Err != nil {
			r.Violate("C15:good-outcome-rejected", "%s: both requests succeeded with status 0 and OutLen %d but GetRawQuote failed: %v", name, s.outLen, out.Err)
			return
		}
		if !bytes.Equal(data, dev.wrote[:s.outLen]) {
			r.Violate("C15:wrong-bytes", "%s: returned %d bytes that are not the first OutLen=%d bytes the device wrote", name, len(data), s.outLen)
		}
		r.Probe("good_outcome")
		if len(*kept) < 4 {
			*kept = append(*kept, c15Kept{name: name, data: data, want: append([]byte(nil), dev.wrote[:s.outLen]...)})
		} else {
			(*kept)[int(s.outLen)%4] = c15Kept{name: name, data: data, want: append([]byte(nil), dev.wrote[:s.outLen]...)}
			r.Probe("earlier_results_rechecked_after_later_calls")
		}
		{
			// the parsed form equals parsing the raw form — whatever the device wrote: the exact quote, the
			// quote followed by what else the buffer held (OutLen larger than the quote), a cut quote, garbage
			dev2 := &c15Device{s: s}
			var q any
			o2 := core.Call(func() error {
				var err error
				q, err = client.GetQuote(dev2, rd)
				return err
			})
			want, werr := abi.QuoteToProto(data)
			if o2.Panicked || (o2.Err == nil) != (werr == nil) {
				r.Violate("C15:getquote-differs", "%s: GetQuote result (%s) disagrees with parsing the raw quote (%v)", name, o2.ErrText(), werr)
			} else if werr == nil {
				qm, ok1 := q.(proto.Message)
				wm, ok2 := want.(proto.Message)
				if !ok1 || !ok2 || !proto.Equal(qm, wm) {
					r.Violate("C15:getquote-differs", "%s: GetQuote message differs from QuoteToProto(GetRawQuote)", name)
				}
				r.Probe("getquote_equals_parse")
				if int(s.outLen) > len(s.quoteRaw) && s.bufKind == 0 {
					r.Probe("getquote_with_bytes_behind_the_quote")
				}
			}
		}
		return
	}
	// every other outcome: an error, and no data
	if out.Err == nil {
		r.Violate("C15:bad-outcome-accepted:"+cond, "%s: device outcome is a failure (report ok=%v, quote ok=%v, status=%#x, OutLen=%d) but GetRawQuote returned nil error and %d bytes", name, reportOK, quoteOK, s.status, s.outLen, len(data))
		return
	}
	if len(data) != 0 {
		r.Violate("C15:partial-data-with-error:"+cond, "%s: error returned together with %d bytes of data", name, len(data))
	}
}

// c15Toggle: support withdrawn / regained between calls; every call must follow the provider's
// CURRENT answer (supported: its bytes and error verbatim; otherwise the device path, which fails
// here because no device exists at the configured path).
func c15Toggle(r *core.Run, quoteRaw []byte, rd [64]byte) {
	c15FlagMu.Lock()
	defer c15FlagMu.Unlock()
	fl := flag.Lookup("tdx_guest_device_path")
	if fl == nil {
		return
	}
	old := fl.Value.String()
	defer fl.Value.Set(old)
	fl.Value.Set("/nonexistent/verif-c15-no-device")
	p := &c15Provider{data: append([]byte(nil), quoteRaw...)}
	seq := make([]bool, 2+r.T.Draw(5))
	for i := range seq {
		seq[i] = r.T.Bool()
	}
	seq[0], seq[1] = r.T.Bool(), false
	seq[1] = !seq[0]
	for i, sup := range seq {
		p.supported = sup
		before := p.nGet
		var data []byte
		out := core.Call(func() error {
			var err error
			data, err = client.GetRawQuote(p, rd)
			return err
		})
		r.Eval()
		r.Eventf("toggle call %d supported=%v -> %s", i, sup, errClass(out))
		if out.Panicked {
			r.Violate("C15:provider-panic", "toggling provider, call %d: panicked: %s", i, out.PanicVal)
			return
		}
		if sup && (out.Err != nil || !bytes.Equal(data, p.data) || p.nGet != before+1) {
			r.Violate("C15:provider-support-not-re-evaluated", "call %d: the provider reports support (after earlier calls where it did not), but its quote was not returned verbatim (err=%v, provider asked=%v)", i, out.Err, p.nGet == before+1)
		}
		if !sup && (out.Err == nil || len(data) != 0 || p.nGet != before) {
			r.Violate("C15:provider-support-not-re-evaluated", "call %d: the provider reports NO support (after earlier calls where it did), yet it was used or a quote was returned (err=%v, %d bytes, provider asked=%v)", i, out.Err, len(data), p.nGet != before)
		}
	}
	r.Probe("provider_support_toggles")
	r.State("provider toggles n=%d", len(seq))
}

func okStr(b bool) string {
	if b {
		return "ok"
	}
	return "fail"
}

func c15JudgeProvider(r *core.Run, name string, supported bool, dk int, withErr bool, quoteRaw []byte, rd [64]byte) {
	p := &c15Provider{supported: supported}
	switch dk {
	case 0:
		p.data = append([]byte(nil), quoteRaw...)
	case 1:
		p.data = []byte{}
	case 2:
		p.data = nil
	case 3: // the quote followed by zero padding
		p.data = append(append([]byte(nil), quoteRaw...), make([]byte, 1+int(rd[0])%200)...)
	case 4: // the quote followed by other bytes
		p.data = append(append([]byte(nil), quoteRaw...), rd[:1+int(rd[1])%60]...)
	case 5: // a cut quote
		p.data = append([]byte(nil), quoteRaw[:len(quoteRaw)*2/3]...)
	}
	if withErr {
		p.err = errors.New("scripted: provider error")
	}
	r.Eval()
	r.State("provider supported=%v data=%d err=%v", supported, dk, withErr)
	if supported {
		var data []byte
		out := core.Call(func() error {
			var err error
			data, err = client.GetRawQuote(p, rd)
			return err
		})
		r.Eventf("%s -> %s", name, out.ErrText())
		if out.Panicked {
			r.Violate("C15:provider-panic", "%s: panicked: %s", name, out.PanicVal)
			return
		}
		if p.nGet != 1 || p.sawRD != rd {
			r.Violate("C15:provider-not-asked", "%s: provider GetRawQuote calls=%d, report data relayed=%v", name, p.nGet, p.sawRD == rd)
		}
		if out.Err != p.err || !bytes.Equal(data, p.data) || (data == nil) != (p.data == nil) {
			r.Violate("C15:provider-not-verbatim", "%s: provider returned (%d bytes, %v); client returned (%d bytes, %v)", name, len(p.data), p.err, len(data), out.Err)
		}
		r.Fault("provider_error", withErr)
		// the parsed form equals parsing the raw form
		p2 := &c15Provider{supported: true, data: p.data, err: p.err}
		var q any
		o2 := core.Call(func() error {
			var err error
			q, err = client.GetQuote(p2, rd)
			return err
		})
		if o2.Panicked {
			r.Violate("C15:provider-panic", "%s: GetQuote panicked: %s", name, o2.PanicVal)
			return
		}
		if withErr {
			if o2.Err == nil {
				r.Violate("C15:getquote-differs", "%s: the provider failed but GetQuote returned no error", name)
			}
			return
		}
		want, werr := abi.QuoteToProto(p.data)
		if (o2.Err == nil) != (werr == nil) {
			r.Violate("C15:getquote-differs", "%s: GetQuote through the provider (%s) disagrees with parsing the provider's bytes (%v)", name, o2.ErrText(), werr)
		} else if werr == nil {
			qm, ok1 := q.(proto.Message)
			wm, ok2 := want.(proto.Message)
			if !ok1 || !ok2 || !proto.Equal(qm, wm) {
				r.Violate("C15:getquote-differs", "%s: GetQuote through the provider differs from QuoteToProto of the provider's bytes (%d bytes, quote is %d)", name, len(p.data), len(quoteRaw))
			}
			r.Probe("provider_getquote_equals_parse")
		}
		return
	}
	// unsupported: the device path is tried.  Observed through the device-path flag:
	// (a) a path that does not exist, (b) a regular file (open succeeds, ioctl fails).
	c15FlagMu.Lock()
	defer c15FlagMu.Unlock()
	fl := flag.Lookup("tdx_guest_device_path")
	if fl == nil {
		r.Violate("C15:no-device-path-flag", "flag tdx_guest_device_path disappeared")
		return
	}
	old := fl.Value.String()
	defer fl.Value.Set(old)
	dir, err := os.MkdirTemp("", "verif-c15-")
	if err != nil {
		panic(err)
	}
	defer os.RemoveAll(dir)
	reg := filepath.Join(dir, "regular-file")
	os.WriteFile(reg, make([]byte, 64), 0o600)
	for _, path := range []string{filepath.Join(dir, "does-not-exist"), reg} {
		fl.Value.Set(path)
		var data []byte
		out := core.Call(func() error {
			var err error
			data, err = client.GetRawQuote(p, rd)
			return err
		})
		r.Eventf("%s fallback path=%s -> err=%v", name, filepath.Base(path), out.Err != nil)
		r.Fault("provider_unsupported_fallback", true)
		if out.Panicked {
			r.Violate("C15:fallback-panic", "%s: panicked on fallback: %s", name, out.PanicVal)
			continue
		}
		if p.nGet != 0 {
			r.Violate("C15:unsupported-provider-used", "%s: provider reports no support but its GetRawQuote was called", name)
		}
		if out.Err == nil || len(data) != 0 {
			r.Violate("C15:fallback-accepted", "%s: no provider and no usable device at %s, yet (%d bytes, err=%v)", name, path, len(data), out.Err)
		}
		r.Probe("fallback_to_device_path")
	}
}

func init() {
	register(&core.Check{
		ID:    "C15",
		Level: "fault_enumeration",
		Rule: "per run a seeded device world (TD report, generated quote with tape-chosen auth-data length/extra bytes, garbage buffer, arbitrary status) and one (report-ioctl outcome, report-data kind) pair; inside the run the complete grid " +
			"quote-ioctl{error,result 0,1,7,8,9} x status{0,in-flight,error,unavailable,arbitrary with the top bit clear,arbitrary with the top bit set} x OutLen{0,1,exact,buffer,buffer+1,2^32-1} x buffer{quote,garbage,TD report left in place} plus 2-4 callers with different report data on one device at overlapping simulated times (fake-clock bubble; each must get the quote made for its own report data); plus all 24 provider behaviours (supported or not x bytes{quote, empty, nil, quote+zero padding, quote+other bytes, cut quote} x error or not); for every good device outcome and every supported provider GetQuote is compared with abi.QuoteToProto of the raw result; " +
			"30 runs cover report-ioctl{error,0,1,7,8,9} x report-data{zeros,ones,random}. distinct = (report ok, quote outcome, status, OutLen, buffer kind, verdict); all but the single all-good cell carry an injected device fault",
		Exhaustive: true,
		Assumptions: []string{
			"client.LinuxDevice (real ioctl) and LinuxConfigFsQuoteProvider are the far side of the seam and are not exercised, except that the fallback path opens a non-existent path and a regular file",
			"the device may write a TD report even when it signals a failure code",
		},
		RealStub: map[string]string{"client.GetRawQuote/GetQuote": "real", "abi.QuoteToProto": "real", "client.Device": "stub (scripted)", "client.QuoteProvider": "stub (scripted)", "LinuxDevice ioctl": "not exercised (only Open on a temp path)"},
		Runs: func(tier string) int {
			if tier == "thorough" {
				return 30 * 12
			}
			return 30
		},
		Run:         c15Run,
		MustProbe:   []string{"good_outcome", "earlier_results_rechecked_after_later_calls", "getquote_equals_parse", "getquote_with_bytes_behind_the_quote", "provider_getquote_equals_parse", "concurrent_callers_on_one_device", "fallback_to_device_path", "provider_support_toggles", "status0_bad_outlen_0", "status0_bad_outlen_buffer+1"},
		SimTimeNote: "no clock in this property",
	})
}
