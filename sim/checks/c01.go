package checks

import (
	"encoding/hex"
	"fmt"
	"math/big"
	"time"

	pb "github.com/google/go-tdx-guest/proto/tdx"
	"github.com/google/go-tdx-guest/verify"
	"github.com/google/go-tdx-guest/verify/trust"
	"verif/sim/core"
	"verif/sim/world"
)

// C01 — every link of the signature chain holds.
//   L1: header||body signed by the attestation key carried in the quote
//   L2: QE report-data == SHA-256(AK || auth data) || 0^32
//   L3: QE report signed by the PCK leaf key
// The simulator holds the attestation, PCK and CA keys, so it can build quotes in
// which exactly the chosen links are broken and every other link is valid.

var c01Regions = []string{"header", "body", "ak", "qereport", "auth"}

var p256N, _ = hex.DecodeString("ffffffff00000000ffffffffffffffffbce6faada7179e84f3b9cac2fc632551")

type c01Forgery struct {
	name string
	q    *world.Quote
	raw  []byte // if q == nil: delivered as raw bytes only (structure not expressible in the struct)
}

func c01Forgeries(r *core.Run, w *world.World) []c01Forgery {
	t := r.T
	foreign := world.NewKey(t)
	foreign2 := world.NewKey(t)
	p := w.P
	var out []c01Forgery
	base := func() *world.Quote { return w.Quote.Clone() }

	// --- all seven non-empty subsets of {L1,L2,L3}; other links stay valid
	l2tape := t.Draw(4)
	for mask := 1; mask < 8; mask++ {
		variants := []int{l2tape}
		if mask == 2 {
			variants = []int{0, 1, 2, 3} // L2 alone: every way of breaking the binding
		}
		for _, l2variant := range variants {
			q := base()
			if mask&2 != 0 { // break L2, keep L3 valid by re-signing the QE report with the genuine PCK key
				switch l2variant {
				case 0: // auth data changed after binding
					if len(q.Auth) == 0 {
						q.Auth = []byte{0x5a}
					} else {
						q.Auth[t.Draw(len(q.Auth))] ^= 0x01
					}
				case 1: // hash half of report-data changed
					q.QE.ReportData[t.Draw(32)] ^= 0x80
					q.SignQE(p.PCKKey)
				case 2: // padding half not zero
					q.QE.ReportData[32+t.Draw(32)] = 1
					q.SignQE(p.PCKKey)
				case 3: // another attestation key that the QE never bound, body re-signed with it (L1 valid)
					copy(q.AK[:], foreign.Pub64())
					q.SignBody(foreign)
				}
			}
			if mask&4 != 0 { // break L3: QE report signed by a foreign key
				q.SignQE(foreign2)
			}
			if mask&1 != 0 { // break L1: header||body signed by a key that is not the one in the quote
				q.SignBody(foreign2)
			}
			out = append(out, c01Forgery{name: fmt.Sprintf("links-broken:%s%s%s/v%d", tern(mask&1 != 0, "L1", ""), tern(mask&2 != 0, "L2", ""), tern(mask&4 != 0, "L3", ""), l2variant), q: q})
		}
	}
	// --- a self-consistent rogue attester: own AK, own "PCK" key, genuine chain attached
	{
		q := base()
		copy(q.AK[:], foreign.Pub64())
		q.BindAK()
		q.SignBody(foreign)
		q.SignQE(foreign2)
		out = append(out, c01Forgery{name: "rogue-attester-own-keys-genuine-chain", q: q})
	}
	// --- the same rogue attester carrying a twin of the genuine leaf: same names, same serial, same extensions,
	// its own key, "issued" with a key that is not the CA's.  Self-consistent from the twin downwards; the QE
	// report is not signed by the key of a leaf the CA certified (through a long-lived options value this comes
	// right after the genuine quote, whose leaf has that very issuer and serial)
	{
		q := base()
		twin := world.Issue(p.PCKSp, foreign2, w.CA, foreign)
		q.Chain = world.ChainPEM(twin, w.CA, w.RootInQuote, false)
		copy(q.AK[:], foreign.Pub64())
		q.BindAK()
		q.SignBody(foreign)
		q.SignQE(foreign2)
		out = append(out, c01Forgery{name: "rogue-attester-with-twin-of-the-genuine-leaf", q: q})
		// and the genuine quote with nothing but its leaf exchanged for the twin: the QE report is then not signed by
		// the key of the leaf certificate the quote carries
		q2 := base()
		q2.Chain = world.ChainPEM(twin, w.CA, w.RootInQuote, false)
		out = append(out, c01Forgery{name: "genuine-quote-carrying-twin-of-its-leaf", q: q2})
	}
	// --- attestation key edge values (body signature left as is and also re-signed where possible)
	edgeKeys := map[string][]byte{
		"ak-zero":     make([]byte, 64),
		"ak-offcurve": func() []byte { b := p.AK.Pub64(); b[63] ^= 1; return b }(),
		"ak-x-ge-p": func() []byte {
			b := p.AK.Pub64()
			for i := 0; i < 32; i++ {
				b[i] = 0xff
			}
			return b
		}(),
	}
	for _, k := range core.SortedKeys(edgeKeys) {
		q := base()
		copy(q.AK[:], edgeKeys[k])
		out = append(out, c01Forgery{name: k, q: q})
		q2 := base()
		copy(q2.AK[:], edgeKeys[k])
		q2.BindAK()
		q2.SignQE(p.PCKKey) // the binding and the QE signature are valid for this (unusable) key
		out = append(out, c01Forgery{name: k + "+rebound", q: q2})
	}
	// --- signature edge values: r or s in {0, n, 2^256-1}
	edge := map[string][]byte{"0": make([]byte, 32), "n": p256N, "max": bytesOf(0xff, 32)}
	for _, which := range []string{"sig", "qesig"} {
		for _, half := range []int{0, 1} {
			for _, k := range core.SortedKeys(edge) {
				q := base()
				dst := q.Sig[:]
				if which == "qesig" {
					dst = q.QESig[:]
				}
				copy(dst[32*half:32*half+32], edge[k])
				out = append(out, c01Forgery{name: fmt.Sprintf("%s-%s=%s", which, []string{"r", "s"}[half], k), q: q})
			}
		}
	}
	// --- splices with a second honest platform certified by the same CA
	{
		w2p := world.NewKey(t) // PCK key of platform 2
		ak2 := world.NewKey(t)
		sp := p.PCKSp
		sp.Serial = new2Serial(t)
		pck2 := world.Issue(sp, w2p, w.CA, w.CAKey)
		q2 := base()
		copy(q2.AK[:], ak2.Pub64())
		q2.Chain = world.ChainPEM(pck2, w.CA, w.RootInQuote, false)
		q2.BindAK()
		q2.SignBody(ak2)
		q2.SignQE(w2p) // q2 is a fully honest quote of platform 2
		out = append(out, c01Forgery{name: "control:second-honest-platform", q: q2})
		// AK swapped in from platform 2
		a := base()
		a.AK = q2.AK
		out = append(out, c01Forgery{name: "splice:ak-of-other-platform", q: a})
		// header/body/sig of platform 1 on the QE data + chain of platform 2 (L1 broken only)
		b := q2.Clone()
		b.SetRegion("header", w.Quote.HeaderBytes())
		b.SetRegion("body", w.Quote.BodyBytes())
		b.Sig = w.Quote.Sig
		out = append(out, c01Forgery{name: "splice:body+sig-of-p1-on-qe-of-p2", q: b})
		// body+sig+AK of platform 1, QE report/sig/auth/chain of platform 2 (L2 broken only)
		c := q2.Clone()
		c.SetRegion("header", w.Quote.HeaderBytes())
		c.SetRegion("body", w.Quote.BodyBytes())
		c.Sig, c.AK = w.Quote.Sig, w.Quote.AK
		out = append(out, c01Forgery{name: "splice:body+sig+ak-of-p1-on-qe-of-p2", q: c})
		// QE report of platform 1 verified against the chain of platform 2 (L3 broken only)
		d := base()
		d.Chain = q2.Chain
		out = append(out, c01Forgery{name: "splice:chain-of-other-platform", q: d})
	}
	// --- resized / truncated regions (raw only)
	raw, regs := w.Quote.BytesRegions()
	find := func(n string) world.Region {
		for _, rg := range regs {
			if rg.Name == n {
				return rg
			}
		}
		panic(n)
	}
	authLen := find("authlen")
	for _, d := range []int{-1, 1, 2, 255} {
		b := append([]byte(nil), raw...)
		v := int(b[authLen.Off]) | int(b[authLen.Off+1])<<8
		nv := v + d
		if nv < 0 || nv > 65535 {
			continue
		}
		b[authLen.Off], b[authLen.Off+1] = byte(nv), byte(nv>>8)
		out = append(out, c01Forgery{name: fmt.Sprintf("resize:authlen%+d", d), raw: b})
	}
	// drop / insert one auth byte with all enclosing sizes corrected (structure consistent, content not what was bound)
	{
		q := base()
		q.Auth = append(q.Auth, 0)
		out = append(out, c01Forgery{name: "resize:auth+1byte-consistent", q: q})
		if len(w.Quote.Auth) > 0 {
			q := base()
			q.Auth = q.Auth[:len(q.Auth)-1]
			out = append(out, c01Forgery{name: "resize:auth-1byte-consistent", q: q})
		}
	}
	signedEnd := find("chain").Off + find("chain").Len
	cuts := []int{0, 1, 47, 48, 631, 632, 636, 700, find("qereport").Off + 10, find("auth").Off, find("chain").Off, find("chain").Off + 100, signedEnd - 1}
	for _, n := range cuts {
		if n >= 0 && n < signedEnd {
			out = append(out, c01Forgery{name: fmt.Sprintf("truncate:%d", n), raw: append([]byte(nil), raw[:n]...)})
		}
	}
	// --- random multi-byte mutation inside the claimed regions
	for k := 0; k < 6; k++ {
		b := append([]byte(nil), raw...)
		n := 2 + t.Draw(6)
		changed := false
		for i := 0; i < n; i++ {
			rg := find(c01Regions[t.Draw(len(c01Regions))])
			if rg.Len == 0 {
				continue
			}
			pos := rg.Off + t.Draw(rg.Len)
			x := byte(1 + t.Draw(255))
			b[pos] ^= x
			changed = true
		}
		if changed && string(b) != string(raw) {
			out = append(out, c01Forgery{name: fmt.Sprintf("random-multibyte-%d", k), raw: b})
		}
	}
	return out
}

func new2Serial(t *core.Tape) *big.Int {
	b := t.Bytes(18)
	b[0] = b[0]&0x7f | 0x10
	return new(big.Int).SetBytes(b)
}

func tern(c bool, a, b string) string {
	if c {
		return a
	}
	return b
}

func bytesOf(v byte, n int) []byte {
	b := make([]byte, n)
	for i := range b {
		b[i] = v
	}
	return b
}

func c01Run(r *core.Run) {
	t := r.T
	cfg := world.Cfg{Processor: 1}
	cfg.AuthLen = []int{-1, 1, 31, 32, 33, 255}[t.Draw(6)]
	if r.Thorough() && t.Chance(1, 6) {
		cfg.AuthLen = []int{4096, 65535}[t.Draw(2)]
	}
	if !r.Thorough() && r.Index < 16 {
		cfg.AuthLen = 32 // the quick bit-flip enumeration uses one shape so that its 16 chunks tile every position
	}
	if t.Chance(1, 3) {
		cfg.ExtraBytes = 1 + t.Draw(16)
	}
	// every third world lives at the wall clock's "now", so that the same forgeries can also be verified with
	// Options.Now unset (the library then reads the clock itself; windows are weeks wide, the hour does not matter)
	nowWorld := r.Index%3 == 2
	if nowWorld {
		cfg.Epoch = wallNow
		cfg.NetLat = -1 // inside a fake-clock bubble "now" would be another day
		r.Probe("world_at_wall_clock_now")
		r.WallClockWorld = true
	}
	w := world.NewWorld(t, cfg)
	r.Eventf("world %s", tern(nowWorld, "(at wall-clock now)", w.Describe()))
	r.Fault("net:every_fetch_takes_simulated_time", w.NetLat > 0)
	raw, regs := w.Quote.BytesRegions()

	// positive control (reported by C11, only counted here)
	for level := O0; level <= O2; level++ {
		if o := verifyRaw(raw, worldOpts(w, level)); !o.Accepted() {
			r.Count("control_failed", 1)
			r.Eventf("control failed at %s: %s", optNames[level], errClass(o))
		}
	}

	judge := func(kind, name string, o core.Outcome, level, form string) {
		r.Eval()
		if o.Accepted() {
			r.Violate("C01:accepted:"+kind, "%s accepted by %s at level %s (world %s)", name, form, level, w.Describe())
		}
	}

	// (a) single-bit flips of header, body, attestation key, QE report, QE auth data
	flipEvery := r.Thorough() || r.Index < 16
	flipLong := worldOpts(w, O0)
	if flipEvery {
		total := 0
		for _, rg := range regs {
			if isC01Region(rg.Name) {
				total += rg.Len * 8
			}
		}
		chunks, chunk := 1, 0
		if !r.Thorough() {
			chunks, chunk = 16, r.Index%16
		}
		if len(w.Quote.Auth) > 300 { // very long auth data: a tape-chosen window of it, the fixed regions completely
			r.Count("auth_window_only", 1)
		}
		k := 0
		for _, rg := range regs {
			if !isC01Region(rg.Name) {
				continue
			}
			lim := rg.Len
			if rg.Name == "auth" && lim > 300 {
				lim = 300
			}
			for i := 0; i < lim; i++ {
				for bit := 0; bit < 8; bit++ {
					k++
					if k%chunks != chunk {
						continue
					}
					item := fmt.Sprintf("flip:%s+%d.%d", rg.Name, i, bit)
					if !r.Item(item) {
						continue
					}
					b := append([]byte(nil), raw...)
					b[rg.Off+i] ^= 1 << bit
					o := verifyRaw(b, worldOpts(w, O0))
					judge("bitflip:"+rg.Name, item, o, "base", "RawTdxQuote")
					r.State("flip %s byte%d bit%d", rg.Name, i*8/maxInt(rg.Len, 1), bit)
					// the same mutant through the message entry point, and at the higher levels, for a tape-independent subset
					if (i*8+bit)%37 == 0 {
						m := w.Quote.FromRaw(b, regs).Proto(0)
						judge("bitflip-msg:"+rg.Name, item, verifyMsg(m, worldOpts(w, O0)), "base", "TdxQuote(message)")
						judge("bitflip:"+rg.Name, item, verifyRaw(b, worldOpts(w, O2)), "collateral+revocation", "RawTdxQuote")
						// and through a long-lived options value that has just verified the genuine raw quote
						if ctl := verifyRaw(raw, flipLong); !ctl.Accepted() {
							r.Count("control_failed", 1)
						}
						judge("bitflip-msg:"+rg.Name, item+" (through an options value that had just verified the genuine raw quote)", verifyMsg(m, flipLong), "base", "TdxQuote(message)")
					}
					r.EndItem()
				}
			}
		}
		r.Fault("wire_bitflip_enumerated", true)
		r.Probe("bitflips_enumerated")
		_ = total
	}

	// (a') the message form carries some 16-bit wire fields as 32-bit numbers: a high bit set there is a
	// change of the header / QE report that the signed bytes do not show.  Must be rejected.
	if r.Item("msg-high-bits") {
		type hb struct {
			name string
			set  func(m *pb.QuoteV4, bit uint)
		}
		fields := []hb{
			{"header.version", func(m *pb.QuoteV4, b uint) { m.Header.Version |= 1 << b }},
			{"header.attestation_key_type", func(m *pb.QuoteV4, b uint) { m.Header.AttestationKeyType |= 1 << b }},
			{"qe_report.isv_prod_id", func(m *pb.QuoteV4, b uint) {
				m.SignedData.CertificationData.QeReportCertificationData.QeReport.IsvProdId |= 1 << b
			}},
			{"qe_report.isv_svn", func(m *pb.QuoteV4, b uint) {
				m.SignedData.CertificationData.QeReportCertificationData.QeReport.IsvSvn |= 1 << b
			}},
			{"qe_auth_data.parsed_data_size", func(m *pb.QuoteV4, b uint) {
				m.SignedData.CertificationData.QeReportCertificationData.QeAuthData.ParsedDataSize |= 1 << b
			}},
		}
		for _, f := range fields {
			for b := uint(16); b < 32; b++ {
				m := w.Quote.Proto(0)
				f.set(m, b)
				for _, level := range []int{O0, O1} {
					judge("msg-high-bit:"+f.name, fmt.Sprintf("message with bit %d of %s set", b, f.name), verifyMsg(m, worldOpts(w, level)), optNames[level], "TdxQuote(message)")
				}
			}
			r.State("msg-high-bit %s", f.name)
		}
		r.Fault("wire:message_field_high_bit", true)
		r.Probe("message_high_bits")
		r.EndItem()
	}

	// (b)-(d) forgeries
	longLived := map[int]*verify.Options{O0: worldOpts(w, O0), O1: worldOpts(w, O1), O2: worldOpts(w, O2)}
	for _, f := range c01Forgeries(r, w) {
		if !r.Item(f.name) {
			continue
		}
		isControl := len(f.name) > 8 && f.name[:8] == "control:"
		for level := O0; level <= O2; level++ {
			var outs []core.Outcome
			var forms []string
			if f.q == nil {
				outs, forms = append(outs, verifyRaw(f.raw, worldOpts(w, level))), append(forms, "RawTdxQuote")
			} else {
				outs, forms = append(outs, verifyRaw(f.q.Bytes(), worldOpts(w, level))), append(forms, "RawTdxQuote")
				outs, forms = append(outs, verifyMsg(f.q.Proto(0), worldOpts(w, level))), append(forms, "TdxQuote(message)")
			}
			for i, o := range outs {
				r.Eventf("%s level=%s form=%s -> %s", f.name, optNames[level], forms[i], errClass(o))
				if isControl {
					r.Eval()
					if !o.Accepted() {
						r.Count("control_failed", 1)
					}
					continue
				}
				judge(forgeryKind(f.name), f.name, o, optNames[level], forms[i])
			}
			// one long-lived options value per level: it has just verified the GENUINE quote in raw form when the
			// forgery arrives in message form (and the other way round) — what it remembers of the one is of no
			// use to the other
			if f.q != nil && !isControl {
				lo := longLived[level]
				if ctl := verifyRaw(raw, lo); !ctl.Accepted() {
					r.Count("control_failed", 1)
				}
				judge(forgeryKind(f.name), f.name+" (message form, through an options value that had just verified the genuine raw quote)", verifyMsg(f.q.Proto(0), lo), optNames[level], "TdxQuote(message)")
				if ctl := verifyMsg(w.Quote.Proto(0), lo); !ctl.Accepted() {
					r.Count("control_failed", 1)
				}
				judge(forgeryKind(f.name), f.name+" (raw form, through an options value that had just verified the genuine message)", verifyRaw(f.q.Bytes(), lo), optNames[level], "RawTdxQuote")
				r.Probe("forgery_through_long_lived_options")
			}
			// the same with the verification time left to the library
			if nowWorld && f.q != nil {
				on := worldOpts(w, level)
				on.Now = nil
				o := verifyMsg(f.q.Proto(0), on)
				if isControl {
					if !o.Accepted() {
						r.Count("control_failed", 1)
					}
				} else {
					judge(forgeryKind(f.name), f.name+" (Options.Now unset)", o, optNames[level], "TdxQuote(message)")
					r.Probe("forgery_with_now_unset")
				}
			}
		}
		r.Fault("forgery:"+forgeryKind(f.name), true)
		r.State("forgery %s auth=%s", f.name, lenBucket(len(w.Quote.Auth)))
		r.EndItem()
	}
	// (e) the same forgeries while the collateral seam misbehaves: a getter that panics or fails at its
	// k-th fetch.  Whatever happens to the fetch, a forgery is never accepted (a panic that reaches the
	// caller is not an acceptance).
	if r.Item("forgery-under-getter-fault") {
		fs := c01Forgeries(r, w)
		for k := 1; k <= 4; k++ {
			for _, mode := range []string{"panic", "error", "nil-getter-inside-retry"} {
				f := fs[(k*7+len(mode))%8] // one of the links-broken forgeries
				if f.q == nil {
					continue
				}
				var g trust.HTTPSGetter = &faultyGetter{inner: w.PCS, failAt: k, mode: mode, caller: core.GoID()}
				if mode == "nil-getter-inside-retry" && core.Safe() {
					continue
				}
				if mode == "nil-getter-inside-retry" {
					g = &trust.RetryHTTPSGetter{Timeout: time.Millisecond, MaxRetryDelay: time.Millisecond} // no wrapped getter: nil dereference on first use
				}
				for _, level := range []int{O1, O2} {
					o := verifyRaw(f.q.Bytes(), mkOpts(level, g, w.Pool, w.Times))
					judge("forgery-under-getter-"+mode, fmt.Sprintf("%s with a getter that %ss at fetch %d", f.name, mode, k), o, optNames[level], "RawTdxQuote")
					o = verifyMsg(f.q.Proto(0), mkOpts(level, g, w.Pool, w.Times))
					judge("forgery-under-getter-"+mode, fmt.Sprintf("%s with a getter that %ss at fetch %d", f.name, mode, k), o, optNames[level], "TdxQuote(message)")
				}
			}
		}
		r.Fault("pcs:getter_panics_or_fails_at_kth_fetch", true)
		r.Probe("forgery_under_getter_fault")
		r.EndItem()
	}
	r.Sample("world %s: %d forged/resized/truncated/mutated quotes, all rejected; e.g. links-broken:L2 (QE report-data changed, QE report re-signed by the genuine PCK key)", w.Describe(), 60)
}

func forgeryKind(name string) string {
	for i := 0; i < len(name); i++ {
		if name[i] == '/' || name[i] == '=' {
			return name[:i]
		}
	}
	for i := 0; i < len(name); i++ {
		if name[i] >= '0' && name[i] <= '9' && i > 0 && (name[i-1] == ':' || name[i-1] == '-' || name[i-1] == '+') {
			return name[:i-1]
		}
	}
	return name
}

func isC01Region(n string) bool {
	for _, x := range c01Regions {
		if x == n {
			return true
		}
	}
	return false
}

func maxInt(a, b int) int {
	if a > b {
		return a
	}
	return b
}

func init() {
	register(&core.Check{
		ID:        "C01",
		Isolate:   true,
		RetrySafe: true,
		Level:     "fault_enumeration",
		Rule: "per run one seeded honest world (own CA, PCK, attestation and QE keys; in three quarters of the worlds equal-sized quote fields coincide as they do on real TDs — owner / configuration identifiers and unused RTMRs all zero, or neighbouring fields equal — so that a bit the verifier reads from the wrong field is a bit it does not protect); (a) EVERY single-bit flip of header, TD body, attestation key, QE report and QE auth data of its raw quote (quick: 16 runs tile all positions of the auth=32 shape; thorough: all positions for every world), a fixed 1/37 subset also through the message entry point and at the collateral+revocation level; " +
			"(b) all 7 subsets of broken links {L1,L2,L3} with the other links valid (4 ways to break L2, QE report re-signed by the genuine PCK key), rogue attester, attestation-key edge values (zero/off-curve/x>=p, also with valid binding), r/s in {0,n,2^256-1} for both signatures, splices with a second honest platform; (c) auth-length field +/-, consistent +/-1 byte resizes, 13 truncations; (d) random multi-byte mutations; each at 3 option levels x raw/message. " +
			"distinct = flip (region, byte octile, bit) or (forgery name, auth bucket); every case carries an injected fault (controls are counted separately)",
		Exhaustive: true,
		Assumptions: []string{
			"a random bit flip or foreign-key signature does not yield a valid ECDSA signature; SHA-256 collisions do not occur",
			"signature bytes and the PEM chain are outside the bit-flip claim (malleability, re-encodings); coverage-guided fuzzing from the quantifier is outside this technique",
			"for auth data longer than 300 bytes the flips cover its first 300 bytes only",
		},
		RealStub: map[string]string{"verify.RawTdxQuote/TdxQuote": "real", "abi parser/serialiser": "real", "attester->verifier channel": "stub (wire faults)", "QE / PCK / CA keys": "stub (world)", "PCS": "stub (honest)"},
		Runs: func(tier string) int {
			if tier == "thorough" {
				return 96
			}
			return 24
		},
		Run:       c01Run,
		MustProbe: []string{"bitflips_enumerated", "message_high_bits", "forgery_under_getter_fault", "forgery_with_now_unset", "forgery_through_long_lived_options"},
	})
}
