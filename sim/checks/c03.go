package checks

import (
	"encoding/hex"
	"encoding/pem"
	"fmt"
	"net/url"
	"strings"
	"time"

	"github.com/google/go-tdx-guest/testing/testdata"
	"github.com/google/go-tdx-guest/verify"

	"verif/sim/core"
	"verif/sim/world"
)

// C03 — collateral counts only if authentically signed by Intel's TCB signer.
// The simulated PCS endpoint is Byzantine on one of the two JSON routes.

type c03Doc struct {
	route     string // "tcb" | "qe"
	member    string // "tcbInfo" | "enclaveIdentity"
	hdr       string
	genuine   []byte // the signed member as served (G)
	accepting []byte // a member whose content makes the verifier accept (E-up); == genuine for flavour up
	down      bool   // flavour: the genuine signed content makes the model reject
	downWhy   string
}

type c03Fault struct {
	name   string
	ep     *world.Endpoint
	expect world.Expectation
	why    string
}

func sigField(k *world.Key, msg []byte) []byte {
	return []byte(`"` + hex.EncodeToString(k.Sign64(msg)) + `"`)
}

// caseVariant returns a spelling that differs only in letter case.
func caseVariant(s string, mode int) string {
	switch mode % 3 {
	case 0:
		return strings.ToUpper(s)
	case 1:
		return strings.ToUpper(s[:1]) + s[1:]
	default:
		b := []byte(s)
		b[len(b)-1] ^= 0x20
		return string(b)
	}
}

// foldVariant returns a spelling equal only under Unicode simple case folding
// (U+017F LATIN SMALL LETTER LONG S for 's', U+212A KELVIN SIGN for 'k'), or "" if none exists.
func foldVariant(s string) string {
	if i := strings.IndexByte(s, 's'); i >= 0 {
		return s[:i] + "ſ" + s[i+1:]
	}
	if i := strings.IndexByte(s, 'k'); i >= 0 {
		return s[:i] + "K" + s[i+1:]
	}
	return ""
}

func c03Endpoint(w *world.World, d *c03Doc) *world.Endpoint {
	if d.route == "tcb" {
		for _, k := range core.SortedKeys(w.PCS.Tcb) {
			return w.PCS.Tcb[k]
		}
	}
	return w.PCS.QE
}

func c03SetEndpoint(w *world.World, d *c03Doc, ep *world.Endpoint) {
	if d.route == "tcb" {
		for _, k := range core.SortedKeys(w.PCS.Tcb) {
			w.PCS.Tcb[k] = ep
			return
		}
	}
	w.PCS.QE = ep
}

func c03Faults(r *core.Run, w *world.World, d *c03Doc, B *world.PKI) []c03Fault {
	t := r.T
	good := c03Endpoint(w, d)
	hdrVal := good.Hdr[d.hdr][0]
	var out []c03Fault
	// In flavour "down" the genuine signed content makes the verifier reject, so NOTHING the
	// endpoint does without the genuine key may lead to acceptance.  In flavour "up" only faults
	// that destroy authenticity must be rejected.
	authBroken := func(name string, ep *world.Endpoint, why string) {
		out = append(out, c03Fault{name, ep, world.MustReject, why})
	}
	unsigned := func(name string, ep *world.Endpoint, why string) {
		e := world.DontCare
		if d.down {
			e = world.MustReject
			why = "the genuine signed member says reject (" + d.downWhy + "); " + why
		}
		out = append(out, c03Fault{name, ep, e, why})
	}
	with := func(body []byte, hdr map[string][]string) *world.Endpoint {
		ep := good.Clone()
		if body != nil {
			ep.Body = body
		}
		if hdr != nil {
			ep.Hdr = hdr
		}
		return ep
	}
	hdrOf := func(vals ...string) map[string][]string { return map[string][]string{d.hdr: vals} }
	G, E := d.genuine, d.accepting
	gsig := sigField(w.A.TcbKey, G)
	M := d.member

	// transport / gross corruption
	authBroken("transport-error", &world.Endpoint{Err: fmt.Errorf("connection refused")}, "no document was obtained")
	authBroken("empty-body", with([]byte{}, nil), "no document")
	authBroken("random-body", with(t.Bytes(300), nil), "no document")
	authBroken("truncated-body", with(good.Body[:len(good.Body)*2/3], nil), "document cut")
	authBroken("body-is-json-null", with([]byte("null"), nil), "no document")
	authBroken("body-is-json-array", with([]byte("["+string(good.Body)+"]"), nil), "no document at top level")
	// re-encoding without re-signing
	authBroken("reencoded-whitespace", with(world.Envelope(world.Member{M, append([]byte("{ "), E[1:]...)}, world.Member{"signature", sigField(w.A.TcbKey, E)}), nil), "signed bytes differ from the member's raw bytes (a space was inserted after the member's opening brace)")
	// whitespace OUTSIDE the member is not part of the signed bytes: must stay acceptable when everything is genuine
	out = append(out, c03Fault{"control:whitespace-around-member", with([]byte(strings.Replace(strings.Replace(string(good.Body), `":{`, "\": \n {", 1), `,"signature"`, " ,\t\"signature\"", 1)), nil), tern3(d.down), "whitespace between members is not signed content"})
	{
		// key order changed inside the member: move the first key/value pair to the end
		s := string(E)
		if i := strings.Index(s, `,"version"`); i > 0 {
			re := "{" + s[i+1:len(s)-1] + "," + s[1:i] + "}"
			authBroken("reencoded-key-order", with(world.Envelope(world.Member{M, []byte(re)}, world.Member{"signature", sigField(w.A.TcbKey, E)}), nil), "signed bytes differ from the member's raw bytes")
		}
	}
	authBroken("signature-over-whole-body", with(world.Envelope(world.Member{M, E}, world.Member{"signature", sigField(w.A.TcbKey, world.Envelope(world.Member{M, E}))}), nil), "signature does not cover the member")
	// signed by keys the trusted root did not certify for the role (all carry accepting content)
	fk := world.NewKey(t)
	authBroken("foreign-key,genuine-header", with(world.Envelope(world.Member{M, E}, world.Member{"signature", sigField(fk, E)}), nil), "signature is not from the TCB signer")
	authBroken("lookalike-pki,matching-header", with(world.SignedBody(M, E, B.TcbKey), hdrOf(world.IssuerChainHeader(B.Tcb, B.Root))), "signer chains to a root that is not trusted")
	authBroken("lookalike-signer,genuine-root-in-header", with(world.SignedBody(M, E, B.TcbKey), hdrOf(world.IssuerChainHeader(B.Tcb, w.A.Root))), "signer is not issued by the header's root")
	{
		// the same foreign hierarchy whose signing (or root) certificate has a legal but unusual feature
		// that stops standard path validation early: that error must not stand in for the anchoring
		at := w.Times[world.TTcb]
		if d.route != "tcb" {
			at = w.Times[world.TQE]
		}
		for _, od := range certOddities(at) {
			B4 := world.NewPKI(t, "B4", w.Epoch, w.A)
			od.edit(&B4.TcbSpec)
			B4.Rebuild()
			authBroken("lookalike-pki-signer-"+od.name, with(world.SignedBody(M, E, B4.TcbKey), hdrOf(world.IssuerChainHeader(B4.Tcb, B4.Root))), "signer chains to a root that is not trusted (and is "+od.name+")")
		}
		B5 := world.NewPKI(t, "B5", w.Epoch, w.A)
		B5.RootSpec.Win = world.Window{NotBefore: at.AddDate(0, 0, 30), NotAfter: at.AddDate(20, 0, 0)}
		B5.Rebuild()
		authBroken("lookalike-pki-root-not-yet-valid", with(world.SignedBody(M, E, B5.TcbKey), hdrOf(world.IssuerChainHeader(B5.Tcb, B5.Root))), "signer chains to a root that is not trusted (and is not yet valid)")
	}
	authBroken("platform-ca-key", with(world.SignedBody(M, E, w.A.PlatKey), hdrOf(world.IssuerChainHeader(w.A.Plat, w.A.Root))), "signer does not have the TCB-signing role")
	authBroken("pck-key", with(world.SignedBody(M, E, w.P.PCKKey), hdrOf(world.IssuerChainHeader(w.P.PCK, w.A.Root))), "signer does not have the TCB-signing role")
	authBroken("root-key-as-signer", with(world.SignedBody(M, E, w.A.RootKey), hdrOf(world.IssuerChainHeader(w.A.Root, w.A.Root))), "signer does not have the TCB-signing role")
	{
		// a certificate NAMED like the TCB signer but issued by the Platform CA (not by the root)
		k := world.NewKey(t)
		sp := w.A.TcbSpec
		named := world.Issue(sp, k, w.A.Plat, w.A.PlatKey)
		authBroken("tcb-named-cert-issued-by-platform-ca,root-in-header", with(world.SignedBody(M, E, k), hdrOf(world.IssuerChainHeader(named, w.A.Root))), "signer is not issued by the root")
		authBroken("tcb-named-cert-issued-by-platform-ca,ca-in-header", with(world.SignedBody(M, E, k), hdrOf(world.IssuerChainHeader(named, w.A.Plat))), "the header's second certificate is not a self-signed root")
		// self-signed look-alike root in the header, signer issued by it, pool does not contain it
		authBroken("signer-forged-in-name-of-root", with(world.SignedBody(M, E, k), hdrOf(world.IssuerChainHeader(world.Issue(sp, k, w.A.Root, k), w.A.Root))), "signer certificate is not signed by the root")
	}
	// unsigned extra / duplicate members carrying verdict-flipping content
	type spell struct{ tag, key string }
	spells := []spell{{"exact", M}, {"case0", caseVariant(M, 0)}, {"case1", caseVariant(M, 1)}, {"case2", caseVariant(M, 2)}}
	if fv := foldVariant(M); fv != "" {
		spells = append(spells, spell{"fold", fv})
	}
	for _, sp := range spells {
		unsigned("dup-member-"+sp.tag+"-after", with(world.Envelope(world.Member{M, G}, world.Member{"signature", gsig}, world.Member{sp.key, E}), nil), "an unsigned "+sp.key+" member after the genuine one must not supply values")
		unsigned("dup-member-"+sp.tag+"-between", with(world.Envelope(world.Member{M, G}, world.Member{sp.key, E}, world.Member{"signature", gsig}), nil), "an unsigned "+sp.key+" member must not supply values")
		unsigned("dup-member-"+sp.tag+"-before", with(world.Envelope(world.Member{sp.key, E}, world.Member{M, G}, world.Member{"signature", gsig}), nil), "an unsigned "+sp.key+" member before the genuine one must not supply values")
	}
	// partial override: an unsigned case-variant member that carries only a few fields
	if d.route == "tcb" && d.down {
		unsigned("dup-member-partial-override", with(world.Envelope(world.Member{M, G}, world.Member{"signature", gsig}, world.Member{strings.ToUpper(M), partialOverride(E)}), nil), "unsigned partial member must not override signed fields")
	}
	// signature duplicates: E is "signed" by a foreign key in the extra signature member
	fsig := sigField(fk, E)
	sigSpells := []spell{{"exact", "signature"}, {"case0", "SIGNATURE"}, {"case1", "Signature"}, {"fold", foldVariant("signature")}}
	for _, sp := range sigSpells {
		unsigned("dup-signature-"+sp.tag+"-after", with(world.Envelope(world.Member{M, G}, world.Member{"signature", gsig}, world.Member{sp.key, fsig}), nil), "extra signature member")
		unsigned("dup-signature-"+sp.tag+"-before", with(world.Envelope(world.Member{sp.key, fsig}, world.Member{M, G}, world.Member{"signature", gsig}), nil), "extra signature member")
		// both member and signature duplicated: {E, fsig} wrapped around the genuine pair
		unsigned("dup-pair-"+sp.tag, with(world.Envelope(world.Member{caseVariant(M, 0), E}, world.Member{sp.key, fsig}, world.Member{M, G}, world.Member{"signature", gsig}), nil), "an unsigned (member, signature) pair next to the genuine pair")
		unsigned("dup-pair-after-"+sp.tag, with(world.Envelope(world.Member{M, G}, world.Member{"signature", gsig}, world.Member{caseVariant(M, 0), E}, world.Member{sp.key, fsig}), nil), "an unsigned (member, signature) pair after the genuine pair")
	}
	unsigned("extra-unrelated-member", with(world.Envelope(world.Member{"advisory", []byte(`{"x":[1,2,3]}`)}, world.Member{M, G}, world.Member{"signature", gsig}), nil), "unrelated extra member")
	// documents genuinely signed by the TCB signer but of the wrong kind: wrong id, wrong version,
	// no levels — alone, and together with an unsigned decoy member (case variant, after the
	// genuine one) that carries the right id / version / levels
	{
		variants := map[string][]byte{}
		if d.route == "tcb" {
			doc := *w.Tcb
			doc.ID = "SGX"
			variants["signed-wrong-id"] = doc.JSON()
			doc = *w.Tcb
			doc.Version = 2
			variants["signed-wrong-version"] = doc.JSON()
			doc = *w.Tcb
			doc.Levels = nil
			variants["signed-empty-levels"] = doc.JSON()
			doc.OmitLevels = true
			variants["signed-no-levels-member"] = doc.JSON()
		} else {
			doc := *w.QE
			doc.ID = "QE"
			variants["signed-wrong-id"] = doc.JSON()
			doc = *w.QE
			doc.Version = 1
			variants["signed-wrong-version"] = doc.JSON()
			doc = *w.QE
			doc.Levels = nil
			variants["signed-empty-levels"] = doc.JSON()
			doc.OmitLevels = true
			variants["signed-no-levels-member"] = doc.JSON()
		}
		for _, k := range core.SortedKeys(variants) {
			wrong := variants[k]
			ws := sigField(w.A.TcbKey, wrong)
			authBroken(k, with(world.Envelope(world.Member{M, wrong}, world.Member{"signature", ws}), nil), "the signed document does not carry the expected id / version / non-empty level list")
			authBroken(k+"+unsigned-decoy-after", with(world.Envelope(world.Member{M, wrong}, world.Member{"signature", ws}, world.Member{strings.ToUpper(M), E}), nil), "the SIGNED document is of the wrong kind; an unsigned decoy member cannot make up for it")
			authBroken(k+"+unsigned-decoy-before", with(world.Envelope(world.Member{caseVariant(M, 1), E}, world.Member{M, wrong}, world.Member{"signature", ws}), nil), "the SIGNED document is of the wrong kind; an unsigned decoy member cannot make up for it")
		}
	}
	// missing members
	authBroken("member-missing", with(world.Envelope(world.Member{"signature", gsig}), nil), "no signed member")
	authBroken("signature-missing", with(world.Envelope(world.Member{M, E}), nil), "no signature")
	authBroken("member-only-under-case-variant", with(world.Envelope(world.Member{caseVariant(M, 0), E}, world.Member{"signature", sigField(w.A.TcbKey, E)}), nil), "no member under the exact name")
	authBroken("signature-empty", with(world.Envelope(world.Member{M, E}, world.Member{"signature", []byte(`""`)}), nil), "no signature")
	{
		// the signature member is exactly 64 bytes: a valid signature with bytes appended, or cut short, is not it
		good64 := sigField(w.A.TcbKey, E)
		hexOf := func(b []byte) string { return hex.EncodeToString(b) }
		app1 := append(append([]byte(nil), good64[:len(good64)-1]...), []byte(hexOf(t.Bytes(1))+`"`)...)
		app64 := append(append([]byte(nil), good64[:len(good64)-1]...), []byte(hexOf(t.Bytes(64))+`"`)...)
		cut := append(append([]byte(nil), good64[:len(good64)-3]...), '"')
		authBroken("signature-with-one-byte-appended", with(world.Envelope(world.Member{M, E}, world.Member{"signature", app1}), nil), "the signature member is not a 64-byte signature (a byte was appended to a valid one)")
		authBroken("signature-with-64-bytes-appended", with(world.Envelope(world.Member{M, E}, world.Member{"signature", app64}), nil), "the signature member is not a 64-byte signature (64 bytes were appended to a valid one)")
		authBroken("signature-cut-to-63-bytes", with(world.Envelope(world.Member{M, E}, world.Member{"signature", cut}), nil), "the signature member is not a 64-byte signature (cut short)")
	}
	authBroken("signature-odd-hex", with(world.Envelope(world.Member{M, E}, world.Member{"signature", append(append([]byte(`"`), sigField(w.A.TcbKey, E)[1:10]...), '"')}), nil), "signature unusable")
	authBroken("signature-not-hex", with(world.Envelope(world.Member{M, E}, world.Member{"signature", []byte(`"` + strings.Repeat("zz", 64) + `"`)}), nil), "signature unusable")
	// issuer-chain header faults (body genuine)
	authBroken("header-missing", with(nil, map[string][]string{}), "no issuer chain")
	authBroken("header-nil-map", &world.Endpoint{Body: good.Body}, "no issuer chain")
	authBroken("header-empty-value", with(nil, hdrOf("")), "no issuer chain")
	authBroken("header-no-values", with(nil, hdrOf()), "no issuer chain")
	authBroken("header-duplicated", with(nil, hdrOf(hdrVal, hdrVal)), "issuer chain header duplicated")
	authBroken("header-one-cert", with(nil, hdrOf(world.IssuerChainHeader(w.A.Tcb))), "issuer chain must hold exactly signer and root")
	authBroken("header-three-certs", with(nil, hdrOf(world.IssuerChainHeader(w.A.Tcb, w.A.Root, w.A.Plat))), "issuer chain must hold exactly signer and root")
	authBroken("header-swapped", with(nil, hdrOf(world.IssuerChainHeader(w.A.Root, w.A.Tcb))), "issuer chain order")
	authBroken("header-other-name-only", with(nil, map[string][]string{"X-" + d.hdr: {hdrVal}}), "no issuer chain under the expected header")
	{
		pemAll := append(append([]byte(nil), pem.EncodeToMemory(&pem.Block{Type: "X509 CERTIFICATE", Bytes: w.A.Tcb.DER})...), w.A.Root.PEM()...)
		authBroken("header-wrong-pem-type", with(nil, hdrOf(url.QueryEscape(string(pemAll)))), "not CERTIFICATE blocks")
		authBroken("header-bad-escape", with(nil, hdrOf(hdrVal[:40]+"%zz"+hdrVal[40:])), "issuer chain undecodable")
		authBroken("header-garbage-der", with(nil, hdrOf(url.QueryEscape(string(pem.EncodeToMemory(&pem.Block{Type: "CERTIFICATE", Bytes: t.Bytes(300)}))+string(w.A.Root.PEM())))), "issuer chain undecodable")
	}
	return out
}

// partialOverride builds {"tcbLevels": <levels of e>} out of an accepting member.
func partialOverride(e []byte) []byte {
	s := string(e)
	i := strings.LastIndex(s, `"tcbLevels":`)
	if i < 0 {
		return e
	}
	return []byte("{" + s[i:])
}

// c03DefaultAnchor: no pool is configured, so the embedded Intel root is the only anchor.  The
// quote is Intel's genuine sample quote (accepted at the base level); the endpoint serves
// collateral that says "UpToDate" for every platform, signed under a hierarchy whose root is a
// perfect look-alike of the embedded root (same raw subject, serial, key identifier, validity;
// own key).  It must not be accepted.
func c03DefaultAnchor(r *core.Run) {
	t := r.T
	intel := embeddedIntelRoot()
	if intel == nil {
		r.Eventf("embedded root not readable")
		return
	}
	ref := time.Date(2023, 7, 1, 1, 0, 0, 0, time.UTC)
	I := world.NewLookalikeOf(t, "I", intel, ref)
	raw := testdata.RawQuote
	// facts about the sample quote, read with the simulator's own layout table
	body := raw[world.HeaderLen : world.HeaderLen+world.BodyLen]
	qeOff := world.SigDataO + 64 + 64 + 6
	qe := raw[qeOff : qeOff+world.QEReportLen]
	tcb := &world.TcbInfoDoc{ID: "TDX", Version: 3, Issue: ref.AddDate(0, 0, -5), Next: ref.AddDate(0, 0, 25), Fmspc: "50806f000000", PceID: "0000", EvalNum: 99,
		ModSigner: append([]byte(nil), body[64:112]...), ModMask: make([]byte, 8), ModAttr: make([]byte, 8),
		Levels: []world.TcbLevel{{Status: "UpToDate"}}}
	if body[1] != 0 {
		tcb.Modules = []world.ModuleIdentity{{ID: fmt.Sprintf("TDX_%02d", body[1]), Mrsigner: tcb.ModSigner, Attr: tcb.ModAttr, Mask: tcb.ModMask, Levels: []world.ModLevel{{Isvsvn: 0, Status: "UpToDate"}}}}
	}
	qid := &world.QEIdentityDoc{ID: "TD_QE", Version: 2, Issue: ref.AddDate(0, 0, -5), Next: ref.AddDate(0, 0, 25), EvalNum: 99,
		Misc: make([]byte, 4), MiscMask: make([]byte, 4), Attr: make([]byte, 16), AttrMask: make([]byte, 16),
		Mrsigner: append([]byte(nil), qe[128:160]...), ProdID: int(qe[256]) | int(qe[257])<<8, Levels: []world.QELevel{{Isvsvn: 0, Status: "UpToDate"}}}
	pcs := world.NewPCS()
	pcs.Tcb["50806f000000"] = &world.Endpoint{Hdr: map[string][]string{world.HdrTcbInfo: {world.IssuerChainHeader(I.Tcb, I.Root)}}, Body: world.SignedBody("tcbInfo", tcb.JSON(), I.TcbKey)}
	pcs.QE = &world.Endpoint{Hdr: map[string][]string{world.HdrQE: {world.IssuerChainHeader(I.Tcb, I.Root)}}, Body: world.SignedBody("enclaveIdentity", qid.JSON(), I.TcbKey)}
	crl := world.CRLSpec{This: ref.AddDate(0, 0, -5), Next: ref.AddDate(0, 0, 25), Number: 7}
	pcs.PckCrl["platform"] = &world.Endpoint{Hdr: map[string][]string{world.HdrPckCrl: {world.IssuerChainHeader(I.Plat, I.Root)}}, Body: world.MakeCRL(crl, I.Plat, I.PlatKey)}
	for _, u := range I.Root.X.CRLDistributionPoints {
		pcs.ByURL[u] = &world.Endpoint{Body: world.MakeCRL(crl, I.Root, I.RootKey)}
	}
	ts := [5]time.Time{ref, ref, ref, ref, ref}
	if o := verifyRaw(raw, mkOpts(O0, pcs, nil, ts)); !o.Accepted() {
		r.Count("control_failed", 1)
		r.Eventf("default-anchor control (base level) failed: %s", errClass(o))
		return
	}
	for _, level := range []int{O1, O2} {
		item := "default-anchor:collateral-under-intel-lookalike:" + optNames[level]
		if !r.Item(item) {
			continue
		}
		o := verifyRaw(raw, mkOpts(level, pcs, nil, ts))
		r.Eval()
		r.Eventf("%s -> %s", item, errClass(o))
		r.State("%s", item)
		if o.Accepted() {
			r.Violate("C03:accepted:default-anchor:collateral-signed-under-lookalike-root", "no pool configured (embedded Intel root): collateral signed under a look-alike of that root (own key) was accepted at level %s for Intel's sample quote", optNames[level])
		}
		r.EndItem()
	}
	r.Fault("pcs:lookalike-of-embedded-root", true)
	r.Probe("default_anchor_lookalike_collateral")
}

func c03Run(r *core.Run) {
	if r.Index%12 == 11 {
		c03DefaultAnchor(r)
		return
	}
	t := r.T
	// every third world lives at the wall clock's now: its faults are additionally verified with Options.Now
	// unset (the library reads the clock itself; collateral windows are weeks wide)
	nowWorld := r.Index%3 == 2
	cfg := world.Cfg{Processor: 1, AuthLen: 0}
	if nowWorld {
		cfg.Epoch, cfg.NetLat = wallNow, -1
		r.Probe("world_at_wall_clock_now")
		r.WallClockWorld = true
	}
	w := world.NewWorld(t, cfg)
	B := world.NewPKI(t, "B", w.Epoch, w.A)
	d := &c03Doc{route: "tcb", member: "tcbInfo", hdr: world.HdrTcbInfo}
	if t.Bool() {
		d = &c03Doc{route: "qe", member: "enclaveIdentity", hdr: world.HdrQE}
	}
	// flavour
	if d.route == "tcb" {
		d.accepting = w.Tcb.JSON()
	} else {
		d.accepting = w.QE.JSON()
	}
	if t.Draw(3) != 0 {
		d.down = true
		if d.route == "tcb" {
			switch t.Draw(4) {
			case 3:
				w.Tcb.Next = w.Times[world.TTcb].AddDate(0, 0, -1)
				w.Tcb.Issue = w.Tcb.Next.AddDate(0, 0, -30)
				d.downWhy = "the signed TCB Info is past its nextUpdate"
			case 0:
				w.Tcb.Levels[w.LevelIdx].Status = "OutOfDate"
				d.downWhy = "matching TCB level is OutOfDate"
			case 1:
				w.Tcb.Fmspc = hex.EncodeToString([]byte{w.P.Ext.FMSPC[0] ^ 1, 2, 3, 4, 5, 6})
				d.downWhy = "FMSPC of the signed TCB Info differs from the PCK certificate's"
			default:
				w.Tcb.ModSigner = append([]byte(nil), w.Tcb.ModSigner...)
				w.Tcb.ModSigner[0] ^= 1
				for i := range w.Tcb.Modules {
					w.Tcb.Modules[i].Mrsigner = w.Tcb.ModSigner
				}
				d.downWhy = "SEAM signer of the signed TCB Info differs from the quote's"
			}
		} else {
			switch t.Draw(3) {
			case 2:
				w.QE.Next = w.Times[world.TQE].AddDate(0, 0, -1)
				w.QE.Issue = w.QE.Next.AddDate(0, 0, -30)
				d.downWhy = "the signed QE Identity is past its nextUpdate"
			case 0:
				for i := range w.QE.Levels {
					if w.QE.Levels[i].Status == "UpToDate" {
						w.QE.Levels[i].Status = "Revoked"
					}
				}
				d.downWhy = "QE TCB level is Revoked"
			default:
				w.QE.Mrsigner = append([]byte(nil), w.QE.Mrsigner...)
				w.QE.Mrsigner[31] ^= 0x80
				d.downWhy = "QE MRSIGNER differs"
			}
		}
		w.Publish()
		r.Probe("flavour_down")
	} else {
		r.Probe("flavour_up")
	}
	if d.route == "tcb" {
		d.genuine = w.Tcb.JSON()
	} else {
		d.genuine = w.QE.JSON()
	}
	raw := w.Quote.Bytes()
	r.Eventf("world %s doc=%s down=%v (%s)", tern(nowWorld, "(at wall-clock now)", w.Describe()), d.route, d.down, d.downWhy)
	// controls
	ctl := verifyRaw(raw, worldOpts(w, O1))
	if d.down == ctl.Accepted() {
		r.Count("control_unexpected", 1) // C04/C07/C11 report this, not C03
		r.Eventf("control: flavour down=%v but verdict %s", d.down, errClass(ctl))
		// the genuine document alone is already judged unexpectedly: nothing can be attributed to the endpoint faults
		return
	}
	good := c03Endpoint(w, d)
	var longLived map[int]*verify.Options
	if r.Index%2 == 1 {
		longLived = map[int]*verify.Options{O1: worldOpts(w, O1), O2: worldOpts(w, O2)}
		r.Probe("faults_through_long_lived_options")
	}

	judge := func(name string, ep *world.Endpoint, expect world.Expectation, why string) {
		// every fault is judged with collateral checking alone and with revocation checking on top: some
		// forgeries are stopped only by a later check of the other setting, which must not be relied upon
		// genuine first, then the fault: the verifier has just seen the honest response of this endpoint
		// (whatever it remembers of it must not vouch for the faulty one that follows)
		if !strings.HasPrefix(name, "flip-") {
			if ctl := verifyRaw(raw, worldOpts(w, O2)); d.down == ctl.Accepted() {
				r.Count("control_unexpected", 1)
			}
		}
		for _, level := range []int{O1, O2} {
			c03SetEndpoint(w, d, ep)
			opts := worldOpts(w, level)
			if longLived != nil {
				// one long-lived options value per level serves the whole run
				opts = longLived[level]
				opts.Getter, opts.TrustedRoots, opts.Now = w.PCS, w.Pool, timeSet(w.Times)
			}
			o := verifyRaw(raw, opts)
			if longLived != nil && !strings.HasPrefix(name, "flip-") && expect == world.MustReject && !o.Accepted() {
				// asked again, the answer is the same: what a rejected response left behind in the options is
				// not evidence
				if again := verifyRaw(raw, opts); again.Accepted() {
					r.Violate("C03:accepted-on-repetition:"+d.route+":"+classOfFault(name), "%s endpoint fault %q: rejected at level %s, then accepted when the very same verification was repeated through the same options value (%s)", d.route, name, optNames[level], why)
				}
				r.Eval()
			}
			if nowWorld && !strings.HasPrefix(name, "flip-") && expect == world.MustReject {
				on := worldOpts(w, level)
				on.Now = nil
				if ou := verifyRaw(raw, on); ou.Accepted() {
					r.Violate("C03:accepted:"+d.route+":"+classOfFault(name), "%s endpoint fault %q accepted at level %s with Options.Now unset: %s (world at wall-clock now)", d.route, name, optNames[level], why)
				}
				r.Eval()
				r.Probe("fault_with_now_unset")
			}
			c03SetEndpoint(w, d, good)
			r.Eval()
			if expect == world.MustAccept && !o.Accepted() {
				r.Violate("C03:genuine-rejected:"+d.route+":"+classOfFault(name), "%s endpoint variation %q rejected at level %s although %s: %s", d.route, name, optNames[level], why, o.ErrText())
			}
			if expect == world.MustReject && o.Accepted() {
				r.Violate("C03:accepted:"+d.route+":"+classOfFault(name), "%s endpoint fault %q accepted at level %s: %s (world %s)", d.route, name, optNames[level], why, w.Describe())
			}
			if o.Panicked {
				r.Count("panics_seen(reported by C10)", 1)
			}
		}
	}

	for _, f := range c03Faults(r, w, d, B) {
		if !r.Item(f.name) {
			continue
		}
		judge(f.name, f.ep, f.expect, f.why)
		r.Eventf("%s %s expect=%s", d.route, f.name, f.expect)
		r.Fault("pcs:"+classOfFault(f.name), true)
		r.State("%s %s down=%v", d.route, f.name, d.down)
		if d.down && strings.HasPrefix(f.name, "dup-member") && strings.HasSuffix(f.name, "-after") {
			r.Probe("dup_member_after_genuine_with_flipping_content")
		}
		r.EndItem()
	}

	// another verifier in the same process trusts only hierarchy B: a quote that is self-consistent under B
	// comes with this world's genuine collateral, signed under A.  That A's chain was validated (for callers
	// trusting A) a moment ago is of no consequence: for this caller the collateral is signed by nobody it trusts.
	if r.Item("second-verifier-trusting-only-B") {
		qB, _ := quoteUnder(w, B, nil)
		poolB := world.Pool(B.Root)
		for _, level := range []int{O1, O2} {
			o := verifyRaw(qB.Bytes(), mkOpts(level, w.PCS, poolB, w.Times))
			r.Eval()
			if o.Accepted() {
				r.Violate("C03:accepted:"+d.route+":collateral-of-a-hierarchy-this-verifier-does-not-trust", "a verifier trusting only root B accepted (level %s) a quote under B together with collateral signed under root A, which it does not trust (other callers in the process, trusting A, verified that collateral before)", optNames[level])
			}
		}
		// control: the same verifier without collateral checking accepts the chain it trusts
		if o := verifyRaw(qB.Bytes(), mkOpts(O0, &failGetter{}, poolB, w.Times)); !o.Accepted() {
			r.Count("control_failed", 1)
		}
		r.Fault("pki:second_verifier_with_other_roots", true)
		r.Probe("second_verifier_with_other_roots")
		r.State("second-verifier-trusting-only-B")
		r.EndItem()
	}
	// single-bit flips of the body and of the issuer-chain header
	prefix := len(`{"` + d.member + `":`)
	memberEnd := prefix + len(d.genuine)
	sigStart := memberEnd + len(`,"signature":"`)
	sigEnd := sigStart + 128
	body := good.Body
	if string(body[prefix:memberEnd]) != string(d.genuine) || body[sigEnd] != '"' {
		panic("c03: body layout bookkeeping is off")
	}
	stride, phase := 23, r.Index%23
	if r.Thorough() && r.Index%8 == 0 {
		stride, phase = 1, 0
	}
	nbits := len(body) * 8
	for k := phase; k < nbits; k += stride {
		pos, bit := k/8, uint(k%8)
		item := fmt.Sprintf("flip-body:%d.%d", pos, bit)
		if !r.Item(item) {
			continue
		}
		b := append([]byte(nil), body...)
		b[pos] ^= 1 << bit
		expect, why, region := world.DontCare, "", "punctuation"
		switch {
		case pos >= prefix && pos < memberEnd:
			expect, why, region = world.MustReject, "a signed byte changed", "member"
		case pos >= sigStart && pos < sigEnd:
			region = "signature"
			o1, e1 := hex.DecodeString(string(body[sigStart:sigEnd]))
			o2, e2 := hex.DecodeString(string(b[sigStart:sigEnd]))
			if e1 != nil || e2 != nil || string(o1) != string(o2) {
				expect, why = world.MustReject, "the signature value changed"
			}
		}
		if d.down {
			expect, why = world.MustReject, "the genuine signed member says reject ("+d.downWhy+")"
		}
		ep := good.Clone()
		ep.Body = b
		judge("flip-body:"+region, ep, expect, why)
		r.State("%s flip-body %s bit%d", d.route, region, bit)
		r.EndItem()
	}
	r.Fault("pcs:body-bitflip", true)
	hv := good.Hdr[d.hdr][0]
	origCerts := decodeChain(hv)
	hstride := stride * 3
	for k := phase; k < len(hv)*8; k += hstride {
		pos, bit := k/8, uint(k%8)
		item := fmt.Sprintf("flip-header:%d.%d", pos, bit)
		if !r.Item(item) {
			continue
		}
		b := []byte(hv)
		b[pos] ^= 1 << bit
		expect, why := world.MustReject, "the issuer chain no longer decodes to exactly the genuine signer and root certificates"
		if got := decodeChain(string(b)); got != nil && len(got) == 2 && string(got[0]) == string(origCerts[0]) && string(got[1]) == string(origCerts[1]) {
			expect, why = world.DontCare, "decodes to the identical certificates"
			if d.down {
				expect, why = world.MustReject, "the genuine signed member says reject ("+d.downWhy+")"
			}
		}
		ep := good.Clone()
		ep.Hdr[d.hdr] = []string{string(b)}
		judge("flip-header", ep, expect, why)
		r.State("%s flip-header bit%d %s", d.route, bit, expect)
		r.EndItem()
	}
	r.Fault("pcs:header-bitflip", true)
	r.Sample("world %s, %s endpoint, flavour down=%v (%s): structured endpoint faults + body/header bit flips; e.g. body {%q:G,\"signature\":sig(G),%q:E} with E unsigned and verdict-flipping", w.Describe(), d.route, d.down, d.downWhy, d.member, strings.ToUpper(d.member))
}

// decodeChain decodes an issuer-chain header value to DER certificates; nil if it
// is not a clean sequence of CERTIFICATE blocks.
func decodeChain(v string) [][]byte {
	s, err := url.QueryUnescape(v)
	if err != nil {
		return nil
	}
	var out [][]byte
	rest := []byte(s)
	for len(rest) > 0 {
		var b *pem.Block
		b, rest = pem.Decode(rest)
		if b == nil || b.Type != "CERTIFICATE" {
			return nil
		}
		out = append(out, b.Bytes)
	}
	return out
}

// classOfFault maps a fault name to its canonical class: spelling index and position are dropped.
func classOfFault(name string) string {
	for _, suf := range []string{"-after", "-between", "-before"} {
		name = strings.TrimSuffix(name, suf)
	}
	for _, c := range []string{"case0", "case1", "case2"} {
		name = strings.Replace(name, c, "case", 1)
	}
	return name
}

func tern3(down bool) world.Expectation {
	if down {
		return world.MustReject
	}
	return world.MustAccept
}

func init() {
	register(&core.Check{
		ID:    "C03",
		Level: "exploration",
		Rule: "per run one seeded honest world whose TCB-Info or QE-Identity endpoint (tape) turns Byzantine; flavour 'down' (2/3 of runs): the genuine signed member makes the model reject (matching level OutOfDate / FMSPC or SEAM-signer mismatch / QE level Revoked / MRSIGNER mismatch) so any acceptance proves unsigned content drove the verdict; flavour 'up': only authenticity-destroying faults must be rejected. " +
			"~95 structured endpoint faults (transport, corruption, re-encoding, signature over whole body, foreign / look-alike / wrong-role keys with matching headers, look-alike hierarchies whose signing or root certificate is expired / not yet valid / carries critical or unusual extensions, extra and duplicate members in exact, case and Unicode-fold spellings before/between/after the genuine ones carrying verdict-flipping content, missing members, 12 issuer-chain header faults) plus single-bit flips of body and header (quick: every 23rd bit, 23 runs tile all positions; thorough: every bit in 1/8 of the runs). " +
			"every structured fault is judged with collateral checking alone and with revocation checking on top. distinct = (route, fault name or flip region+bit, flavour)",
		Assumptions: []string{
			"flips in JSON punctuation / hex letter case / PEM or percent-escapes that decode identically are don't-care in flavour 'up'",
			"a random bit flip or foreign-key signature does not yield a valid ECDSA signature",
		},
		RealStub: map[string]string{"verify.RawTdxQuote with GetCollateral": "real", "pcs JSON decoding": "real", "Intel PCS endpoint": "stub (Byzantine, own JSON emitter)", "Intel CA + look-alike CA": "stub (world)"},
		Runs: func(tier string) int {
			if tier == "thorough" {
				return 23 * 16
			}
			return 46
		},
		Run:       c03Run,
		MustProbe: []string{"flavour_down", "flavour_up", "dup_member_after_genuine_with_flipping_content", "default_anchor_lookalike_collateral", "second_verifier_with_other_roots", "faults_through_long_lived_options", "fault_with_now_unset"},
	})
}
