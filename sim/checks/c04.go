package checks

import (
	"encoding/hex"
	"fmt"
	"strings"

	"github.com/google/go-tdx-guest/pcs"
	pb "github.com/google/go-tdx-guest/proto/tdx"
	"github.com/google/go-tdx-guest/verify"
	"verif/sim/core"
	"verif/sim/world"
)

// C04 — TCB status follows Intel's algorithm (hosted in the simulation: the question
// needs three cooperating signers — CA, TCB signer, QE — and a timeline in which Intel
// publishes new TCB Info and the platform patches later).

// c04Level draws a level around the platform's values: every comparison is "pass" except,
// possibly, one boundary index that sits one above the platform (fail) or exactly at it.
func c04Level(t *core.Tape, in world.TcbInputs) world.TcbLevel {
	var l world.TcbLevel
	rb := t.Bytes(32)
	for j := 0; j < 16; j++ {
		l.Sgx[j] = byte(int(rb[j]) % (int(in.Comp[j]) + 1))
		l.Tdx[j] = byte(int(rb[16+j]) % (int(in.Tee[j]) + 1))
	}
	l.Pce = uint16(t.Draw(int(in.Pce) + 1))
	if t.Bool() { // exactly at the platform everywhere
		l.Sgx, l.Pce, l.Tdx = in.Comp, in.Pce, in.Tee
	}
	delta := func() int { return []int{1, 1, 0, -1}[t.Draw(4)] }
	bump := func(v byte, d int) byte {
		n := int(v) + d
		if n < 0 {
			n = 0
		}
		if n > 255 {
			n = 255
		}
		return byte(n)
	}
	switch t.Draw(6) {
	case 0, 1: // all comparisons pass
	case 2:
		j := t.Draw(16)
		l.Sgx[j] = bump(in.Comp[j], delta())
	case 3:
		n := int(in.Pce) + delta()
		if n < 0 {
			n = 0
		}
		if n > 65535 {
			n = 65535
		}
		l.Pce = uint16(n)
	case 4:
		j := t.Draw(16)
		l.Tdx[j] = bump(in.Tee[j], delta())
	case 5: // indices 0/1 of the TDX components (ignored when TEE_TCB_SVN[1] != 0)
		j := t.Draw(2)
		l.Tdx[j] = bump(in.Tee[j], 1+t.Draw(3))
	}
	l.Status = world.Statuses[t.Draw(len(world.Statuses))]
	if t.Chance(2, 5) {
		l.Status = "UpToDate"
	}
	l.Date = world.RandTcbDate(t)
	return l
}

func c04Doc(t *core.Tape, w *world.World, version int) *world.TcbInfoDoc {
	in := w.Inputs()
	d := &world.TcbInfoDoc{ID: "TDX", Version: 3, Issue: w.Epoch.AddDate(0, 0, -10), Next: w.Epoch.AddDate(0, 0, 20), EvalNum: version}
	d.UpperHex = t.Bool()
	d.Fmspc = hex.EncodeToString(in.Fmspc[:])
	if d.UpperHex {
		d.Fmspc = strings.ToUpper(d.Fmspc)
	}
	d.PceID = hex.EncodeToString(in.PceID[:])
	d.ModSigner = append([]byte(nil), in.MrSignerSeam[:]...)
	d.ModMask = t.Bytes(8)
	d.ModAttr = andB(in.SeamAttr[:], d.ModMask)
	// identity faults (signed by Intel: these are "Intel says something else" worlds)
	switch t.Draw(14) {
	case 0:
		f := in.Fmspc
		f[t.Draw(6)] ^= 1 << t.Draw(8)
		d.Fmspc = hex.EncodeToString(f[:])
	case 1:
		p := in.PceID
		p[t.Draw(2)] ^= 1 << t.Draw(4) // keep it digits-only often; letter case never differs alone
		d.PceID = hex.EncodeToString(p[:])
	case 2:
		d.ModSigner[t.Draw(48)] ^= 1 << t.Draw(8)
	case 3: // a bit set in attributes outside the mask, or a masked bit differing
		i := t.Draw(8)
		d.ModAttr = append([]byte(nil), d.ModAttr...)
		d.ModAttr[i] ^= 1 << t.Draw(8)
	case 4: // mask of the wrong length
		d.ModMask = d.ModMask[:7]
		d.ModAttr = d.ModAttr[:7]
	}
	n := 1 + t.Draw(6)
	for i := 0; i < n; i++ {
		d.Levels = append(d.Levels, c04Level(t, in))
	}
	if in.Tee[1] != 0 || t.Chance(1, 4) {
		kind := t.Draw(8)
		ver := int(in.Tee[1])
		if ver == 0 {
			ver = 1 + t.Draw(9)
		}
		mk := func(v int) world.ModuleIdentity {
			mi := world.ModuleIdentity{ID: fmt.Sprintf("TDX_%02d", v), Mrsigner: d.ModSigner, Attr: d.ModAttr, Mask: d.ModMask}
			nl := 1 + t.Draw(4)
			for i := 0; i < nl; i++ {
				iv := int(in.Tee[0]) + []int{-1, 0, 0, 1, 2}[t.Draw(5)]
				if iv < 0 {
					iv = 0
				}
				if t.Chance(1, 6) {
					// the JSON number is 32 bits wide, the module's SVN (TEE_TCB_SVN[0]) one byte: never reached
					iv = []int{256, 256 + int(in.Tee[0]), 256 + int(in.Tee[0])/2, 512, 65536 + int(in.Tee[0]), 0xffffff00}[t.Draw(6)]
				}
				st := world.Statuses[t.Draw(len(world.Statuses))]
				if t.Bool() {
					st = "UpToDate"
				}
				mi.Levels = append(mi.Levels, world.ModLevel{Isvsvn: uint32(iv), Status: st, Date: world.RandTcbDate(t)})
			}
			return mi
		}
		other := 1 + (ver % 9) // a different version in 1..9
		switch kind {
		case 0: // identity for the platform's version absent
			d.Modules = []world.ModuleIdentity{mk(other)}
		case 1: // empty list
			d.Modules = []world.ModuleIdentity{}
		case 2: // several, the platform's last
			d.Modules = []world.ModuleIdentity{mk(other), mk(ver)}
		case 3: // no level of the identity matches
			mi := mk(ver)
			for i := range mi.Levels {
				mi.Levels[i].Isvsvn = uint32(in.Tee[0]) + 1 + uint32(i)
				if t.Bool() {
					mi.Levels[i].Isvsvn = uint32(256*(1+i)) + uint32(in.Tee[0])/2
				}
			}
			d.Modules = []world.ModuleIdentity{mi}
		default:
			d.Modules = []world.ModuleIdentity{mk(ver)}
			if t.Bool() {
				d.Modules = append(d.Modules, mk(other))
			}
		}
	}
	return d
}

func andB(a, b []byte) []byte {
	out := make([]byte, len(a))
	for i := range a {
		out[i] = a[i] & b[i]
	}
	return out
}

func c04Run(r *core.Run) {
	t := r.T
	w := world.NewWorld(t, world.Cfg{Processor: 1, AuthLen: 0, PermuteExt: t.Bool()})
	version := 1
	var prev *world.TcbInfoDoc
	nul := false
	nEvents := 3 + t.Draw(5)
	r.Eventf("world %s", w.Describe())
	var longLived *verify.Options
	if t.Bool() {
		longLived = worldOpts(w, O1)
		r.Probe("timeline_through_one_options_value")
	}
	for ev := 0; ev < nEvents; ev++ {
		switch k := t.Draw(5); {
		case k == 0 && ev > 0: // the platform is patched: higher SVNs, new PCK certificate, new quote
			for i := 0; i < 1+t.Draw(3); i++ {
				j := t.Draw(16)
				if w.P.Ext.Comp[j] < 250 {
					w.P.Ext.Comp[j] += byte(1 + t.Draw(2))
				}
			}
			if t.Bool() && w.P.Ext.PCESVN < 65000 {
				w.P.Ext.PCESVN += uint16(1 + t.Draw(3))
			}
			j := t.Draw(16)
			if j == 1 { // module version switch (stays in 0..9)
				w.P.Tee[1] = byte(t.Draw(10))
			} else if w.P.Tee[j] < 250 {
				w.P.Tee[j] += byte(1 + t.Draw(2))
			}
			w.Quote.TeeTcbSvn = w.P.Tee
			w.Build(nul)
			r.Eventf("event %d: PlatformPatch comp=%x pce=%d tee=%x", ev, w.P.Ext.Comp, w.P.Ext.PCESVN, w.P.Tee)
			r.Fault("timeline:platform_patch", true)
		case k == 1 && prev != nil: // the PCS serves the previous, still unexpired version
			w.Tcb, prev = prev, w.Tcb
			w.Publish()
			r.Eventf("event %d: ServeStale version=%d", ev, w.Tcb.EvalNum)
			r.Fault("timeline:stale_document_served", true)
			r.Probe("stale_document_served")
		default: // Intel publishes a new TCB Info
			version++
			prev = w.Tcb
			w.Tcb = c04Doc(t, w, version)
			w.Publish()
			r.Eventf("event %d: Publish version=%d levels=%d modules=%d", ev, version, len(w.Tcb.Levels), len(w.Tcb.Modules))
			r.Fault("timeline:publish_new_tcb_info", true)
		}
		// Verify
		in := w.Inputs()
		mv := world.EvalTcb(w.Tcb, in)
		opts := worldOpts(w, O1+t.Draw(2))
		if longLived != nil {
			// a long-lived verifier: the same options value serves every verification of the timeline
			lvl := O1 + t.Draw(2)
			longLived.GetCollateral, longLived.CheckRevocations = true, lvl == O2
			longLived.Getter = w.PCS
			opts = longLived
		}
		raw := w.Quote.Bytes()
		// in half of the events the caller parses once and hands the SAME message object to the verifier and,
		// below, to the level-reporting API (what is remembered about "this quote" between the two calls
		// must not replace the evaluation)
		var sameMsg *pb.QuoteV4
		if t.Bool() {
			sameMsg, _ = parseMsg(raw)
		}
		var o core.Outcome
		if sameMsg != nil {
			o = verifyMsg(sameMsg, opts)
			r.Probe("same_message_object_for_verdict_and_levels_api")
		} else {
			o = verifyRaw(raw, opts)
		}
		r.Eval()
		modBranch := in.Tee[1] != 0
		st := "none"
		if mv.Level >= 0 {
			st = w.Tcb.Levels[mv.Level].Status
		}
		r.State("n=%d match=%d st=%s mod=%v modlvl=%d clause=%s", len(w.Tcb.Levels), mv.Level, st, modBranch, mv.Mod, clauseKind(mv.Clause))
		r.Eventf("event %d: Verify model=%s(%s) level=%d mod=%d -> %s", ev, mv.Exp, mv.Clause, mv.Level, mv.Mod, errClass(o))
		if modBranch && mv.Level >= 0 && w.Tcb.Levels[mv.Level].Status != "UpToDate" {
			r.Probe("module_branch_with_platform_level_not_UpToDate")
		}
		if mv.Level > 0 {
			r.Probe("first_match_not_first_level")
		}
		if mv.Level < 0 {
			r.Probe("no_level_matches")
		}
		switch {
		case mv.Exp == world.MustReject && o.Accepted():
			r.Violate("C04:accepted:"+clauseKind(mv.Clause)+tern(modBranch, ":module-branch", ""), "quote accepted although the model says reject (%s): platform comp=%x pce=%d tee=%x, selected level %d of %d, module level %d (world %s)", mv.Clause, in.Comp, in.Pce, in.Tee, mv.Level, len(w.Tcb.Levels), mv.Mod, w.Describe())
		case mv.Exp == world.MustAccept && !o.Accepted():
			r.Violate("C04:rejected:"+errClass(o), "quote rejected although FMSPC/PCE-ID/SEAM identity match and the selected level %d%s is UpToDate: %s", mv.Level, tern(modBranch, fmt.Sprintf(" and module level %d", mv.Mod), ""), o.ErrText())
		}
		// a rejected platform stays rejected when, with revocation checking on as well, a CRL cannot be had:
		// whatever the verifier does about the missing CRL, it does not drop the TCB evaluation
		if mv.Exp == world.MustReject && !o.Panicked && t.Chance(1, 2) {
			savedP, savedU := w.PCS.PckCrl[w.CAID], w.PCS.ByURL
			kind := t.Draw(3)
			switch kind {
			case 0:
				w.PCS.PckCrl[w.CAID] = &world.Endpoint{Err: fmt.Errorf("connection refused")}
			case 1:
				w.PCS.ByURL = map[string]*world.Endpoint{}
				for _, k := range core.SortedKeys(savedU) {
					w.PCS.ByURL[k] = &world.Endpoint{Err: fmt.Errorf("i/o timeout")}
				}
			case 2:
				w.PCS.ByURL = map[string]*world.Endpoint{}
				for _, k := range core.SortedKeys(savedU) {
					w.PCS.ByURL[k] = &world.Endpoint{Body: []byte("<html>503 Service Unavailable</html>")}
				}
			}
			o2 := verifyRaw(raw, worldOpts(w, O2))
			w.PCS.PckCrl[w.CAID], w.PCS.ByURL = savedP, savedU
			r.Eval()
			r.Eventf("event %d: same platform, both options on, CRL unavailable (kind %d) -> %s", ev, kind, errClass(o2))
			r.Fault("pcs:crl_unavailable_while_tcb_must_reject", true)
			if o2.Accepted() {
				r.Violate("C04:accepted-when-crl-unavailable:"+clauseKind(mv.Clause), "quote accepted with collateral and revocation checking on while a CRL could not be obtained, although the model says reject (%s) (world %s)", mv.Clause, w.Describe())
			}
		}
		// the level-reporting API, through the same options value
		if o.Panicked {
			continue
		}
		m, perr := parseMsg(raw)
		if sameMsg != nil {
			m, perr = sameMsg, nil
		}
		if perr != nil {
			continue
		}
		var tl, ql pcs.TcbLevel
		ao := core.Call(func() error {
			var err error
			tl, ql, err = verify.SupportedTcbLevelsFromCollateral(m, opts)
			return err
		})
		r.Eval()
		r.Eventf("event %d: SupportedTcbLevels -> %s status=%q qe=%q", ev, errClass(ao), tl.TcbStatus, ql.TcbStatus)
		if ao.Panicked {
			r.Violate("C04:levels-api-panic", "SupportedTcbLevelsFromCollateral panicked: %s", ao.PanicVal)
			continue
		}
		li := world.SelectLevel(w.Tcb.Levels, in)
		modFound, modIdx, modAmb := world.SelectModule(w.Tcb, in)
		if modAmb {
			continue
		}
		noMatch := li < 0 || (modBranch && (!modFound || modIdx < 0))
		if noMatch {
			why := "no TCB level matches the platform"
			cls := "no-tcb-level"
			if li >= 0 {
				why, cls = "the TDX module identity or its level does not match", "no-module-level"
			}
			if ao.Err == nil {
				r.Violate("C04:levels-api-no-error:"+cls, "%s, but SupportedTcbLevelsFromCollateral returned nil error and a level with status %q", why, tl.TcbStatus)
			}
			r.Probe("levels_api_no_match")
			continue
		}
		if ao.Err != nil {
			continue // collateral-level errors (expiry etc.) are not this property's business
		}
		// a level was reported: it must be the one the property's selection rule picks
		want := w.Tcb.Levels[li]
		okPlat := string(tl.TcbStatus) == want.Status && tl.Tcb.Pcesvn == want.Pce && len(tl.Tcb.SgxTcbcomponents) == 16 && sameComps(tl.Tcb.SgxTcbcomponents, want.Sgx)
		okMod := false
		if modBranch {
			for _, mi := range w.Tcb.Modules {
				if mi.ID == fmt.Sprintf("TDX_%02d", in.Tee[1]) {
					okMod = string(tl.TcbStatus) == mi.Levels[modIdx].Status && tl.Tcb.Isvsvn == mi.Levels[modIdx].Isvsvn
					break
				}
			}
		}
		if !okPlat && !okMod {
			r.Violate("C04:levels-api-wrong-level", "SupportedTcbLevelsFromCollateral reported status %q pcesvn %d isvsvn %d; the selection rule picks level %d (status %s, pcesvn %d)%s", tl.TcbStatus, tl.Tcb.Pcesvn, tl.Tcb.Isvsvn, li, want.Status, want.Pce, tern(modBranch, fmt.Sprintf(" / module level %d", modIdx), ""))
		}
	}
	r.Sample("timeline in world %s: %d events (publish / platform patch / stale document) each followed by Verify and SupportedTcbLevelsFromCollateral, compared with the transcription of the C04 sentence", w.Describe(), nEvents)
}

func sameComps(c []pcs.TcbComponent, want [16]byte) bool {
	for i := range want {
		if c[i].Svn != want[i] {
			return false
		}
	}
	return true
}

func clauseKind(c string) string {
	if i := strings.IndexByte(c, ':'); i >= 0 {
		return c[:i]
	}
	return c
}

func init() {
	register(&core.Check{
		ID:    "C04",
		Level: "exploration",
		Rule: "per run a timeline of 3-7 events in one seeded world: Intel publishes a new signed TCB Info (1-6 levels, each all-pass or failing/sitting exactly at the boundary at ONE index of SGX components / PCE SVN / TDX components, any of the 7 statuses; occasional FMSPC / PCE-ID / SEAM signer / attribute / mask-length faults; module identities present / absent / several / with non-matching levels, also levels whose isvsvn exceeds the one-byte module SVN: 256 + k, 65536 + k, ...), the platform is patched (new SVNs, new PCK certificate with tape-ordered SGX extension, new quote), or the PCS serves the previous unexpired version; after each event verify.RawTdxQuote and SupportedTcbLevelsFromCollateral are compared with an executable transcription of the C04 sentence applied to the served document. " +
			"distinct = (list length, first-match index or none, status of that level, module branch, module level index, deciding clause)",
		Assumptions: []string{
			"hosted: the fault/schedule dimension adds little here; the deciding element is agreement with the reference model over seeded party states",
			"module ids for versions >= 10, duplicate module identities, PCE-ID letter case and tdxModule-vs-module-identity signer are don't-care",
		},
		RealStub: map[string]string{"verify.RawTdxQuote / SupportedTcbLevelsFromCollateral": "real", "pcs JSON + SGX extension decoding": "real", "Intel CA, TCB signer, platform": "stub (world, timeline)", "reference model": "world.EvalTcb (transcription of the property)"},
		Runs: func(tier string) int {
			if tier == "thorough" {
				return 60000
			}
			return 1500
		},
		Run:       c04Run,
		MustProbe: []string{"timeline_through_one_options_value", "module_branch_with_platform_level_not_UpToDate", "first_match_not_first_level", "no_level_matches", "stale_document_served", "levels_api_no_match"},
	})
}
