package checks

import (
	"fmt"
	"os"
	"os/exec"
	"path/filepath"
	"regexp"
	"sort"
	"strings"
	"sync"
	"testing"

	"verif/sim/core"
)

// Determinism self-test: every engine is executed in many fresh processes with the same
// VERIF_SEED at GOMAXPROCS 1 / 4 / 16 and different worker counts; the digests of the
// batch event logs must all agree.  A mismatch means the HARNESS is not deterministic
// (exit 2) — it is never reported as a violation.

var reDigest = regexp.MustCompile(`batch_digest=([0-9a-f]+)`)

func init() {
	SelfTest = func(t *testing.T) int {
		bin := os.Getenv("VERIF_SELF_BIN")
		if bin == "" {
			fmt.Println("HARNESS-ERROR: VERIF_SELF_BIN not set")
			return core.ExitHarness
		}
		tmp, err := os.MkdirTemp("", "verif-selftest-")
		if err != nil {
			panic(err)
		}
		defer os.RemoveAll(tmp)
		if b, err := os.ReadFile(filepath.Join(os.Getenv("VERIF_DIR"), "known_findings.txt")); err == nil {
			os.WriteFile(filepath.Join(tmp, "known_findings.txt"), b, 0o644)
		}
		props := core.SortedKeys(Registry)
		if only := os.Getenv("VERIF_SELF_PROPS"); only != "" {
			props = strings.Fields(only)
		}
		seeds := []string{"1", "7", "20261001"}
		type cfg struct{ maxprocs, workers string }
		cfgs := []cfg{{"1", "1"}, {"4", "4"}, {"16", "16"}, {"16", "3"}, {"4", "16"}, {"1", "5"}, {"16", "16"}, {"4", "4"}, {"16", "7"}, {"1", "1"}}
		type job struct {
			prop, seed string
			c          cfg
			digest     string
			out        string
		}
		var jobs []*job
		for _, p := range props {
			b := bin
			if p == "C16" {
				b = os.Getenv("VERIF_SELF_BIN_C16")
				if b == "" {
					fmt.Println("selftest: C16 skipped (no instrumented binary given)")
					continue
				}
			}
			if p == "C19" && os.Getenv("VERIF_CHECK_BIN") == "" {
				fmt.Println("selftest: C19 skipped (no tool binary given)")
				continue
			}
			for _, s := range seeds {
				for _, c := range cfgs {
					jobs = append(jobs, &job{prop: p, seed: s, c: c})
				}
			}
		}
		runs := os.Getenv("VERIF_SELF_RUNS")
		if runs == "" {
			runs = "24"
		}
		sem := make(chan struct{}, 3)
		var wg sync.WaitGroup
		for _, j := range jobs {
			j := j
			wg.Add(1)
			sem <- struct{}{}
			go func() {
				defer wg.Done()
				defer func() { <-sem }()
				b := bin
				if j.prop == "C16" {
					b = os.Getenv("VERIF_SELF_BIN_C16")
				}
				cmd := exec.Command(b, "-test.run", "^TestVerif$", "-test.timeout", "0")
				cmd.Env = append(os.Environ(), "VERIF_PROP="+j.prop, "VERIF_SEED="+j.seed, "VERIF_TIER=quick", "VERIF_RUNS="+runs,
					"GOMAXPROCS="+j.c.maxprocs, "VERIF_WORKERS="+j.c.workers, "VERIF_DIR="+tmp, "VERIF_NO_FRESH_REPLAY=1", "VERIF_SHRINK_EXEC=1", "VERIF_REPLAY=", "VERIF_TRACE=")
				out, _ := cmd.CombinedOutput()
				j.out = string(out)
				if m := reDigest.FindStringSubmatch(j.out); m != nil {
					j.digest = m[1]
				}
			}()
		}
		wg.Wait()
		groups := map[string][]*job{}
		for _, j := range jobs {
			k := j.prop + " seed=" + j.seed
			groups[k] = append(groups[k], j)
		}
		keys := make([]string, 0, len(groups))
		for k := range groups {
			keys = append(keys, k)
		}
		sort.Strings(keys)
		bad := 0
		for _, k := range keys {
			ds := map[string]int{}
			for _, j := range groups[k] {
				ds[j.digest]++
			}
			if len(ds) != 1 || ds[""] > 0 {
				bad++
				fmt.Printf("HARNESS-ERROR: %s not deterministic across %d processes: digests %v\n", k, len(groups[k]), ds)
				for _, j := range groups[k] {
					if j.digest == "" {
						fmt.Println(tailStr(j.out, 600))
						break
					}
				}
			} else {
				fmt.Printf("selftest ok: %s -> %d processes (GOMAXPROCS 1/4/16, workers 1..16) agree\n", k, len(groups[k]))
			}
		}
		fmt.Printf("selftest: %d processes, %d property/seed groups, %d mismatching\n", len(jobs), len(keys), bad)
		if bad > 0 {
			return core.ExitHarness
		}
		return core.ExitOK
	}
}

func tailStr(s string, n int) string {
	if len(s) > n {
		return s[len(s)-n:]
	}
	return s
}
