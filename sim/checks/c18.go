package checks

import (
	"crypto/sha512"
	"crypto/x509"
	"encoding/binary"
	"fmt"
	"math/big"
	"os"
	"path/filepath"
	"strings"
	"time"

	"github.com/google/go-eventlog/extract"
	"github.com/google/go-eventlog/proto/state"
	"github.com/google/go-tdx-guest/rtmr"
	"github.com/google/go-tdx-guest/validate"
	"github.com/google/go-tdx-guest/verify"
	"verif/sim/core"
	"verif/sim/world"
)

// C18 — an event log is returned only behind both gates and a matching RTMR replay.
// The firmware log is the repository's sample CCEL; the quote side is simulated: a
// platform whose RTMRs hold the sample values, certified by a generated PKI, so that
// quotes with altered RTMRs can be signed validly.

// Offsets of the RTMRs in a raw v4 quote, from the layout table in world/quote.go.
const c18RtmrOff = world.HeaderLen + 16 + 48 + 48 + 8 + 8 + 8 + 48*4

// tcgDigestOffsets finds the offsets of the SHA-384 digests of the crypto-agile events
// of a TCG2 event log (own minimal parser: header event in TCG 1.2 form, then
// pcrIndex u32, eventType u32, digestCount u32, {algId u16, digest}*, eventSize u32, event).
func tcgDigestOffsets(log []byte) (offs []int, mrIdx []uint32) {
	offs, mrIdx, _ = tcgScan(log)
	return
}

// tcgScan is tcgDigestOffsets plus the offset at which the events end (padding starts).
func tcgScan(log []byte) (offs []int, mrIdx []uint32, end int) {
	if len(log) < 32 {
		return
	}
	// first event: pcrIndex(4) type(4) sha1(20) size(4) data
	sz := int(binary.LittleEndian.Uint32(log[28:32]))
	p := 32 + sz
	end = p
	algLen := map[uint16]int{0x4: 20, 0xb: 32, 0xc: 48, 0xd: 64, 0x12: 32}
	for p+12 <= len(log) {
		idx := binary.LittleEndian.Uint32(log[p:])
		typ := binary.LittleEndian.Uint32(log[p+4:])
		cnt := int(binary.LittleEndian.Uint32(log[p+8:]))
		if idx == 0xffffffff || (idx == 0 && typ == 0 && cnt == 0) || cnt > 8 {
			return
		}
		q := p + 12
		for i := 0; i < cnt; i++ {
			if q+2 > len(log) {
				return
			}
			alg := binary.LittleEndian.Uint16(log[q:])
			l, ok := algLen[alg]
			if !ok || q+2+l > len(log) {
				return
			}
			if alg == 0xc {
				offs = append(offs, q+2)
				mrIdx = append(mrIdx, idx)
			}
			q += 2 + l
		}
		if q+4 > len(log) {
			return
		}
		es := int(binary.LittleEndian.Uint32(log[q:]))
		p = q + 4 + es
		if p <= len(log) {
			end = p
		}
	}
	return
}

// c18Sparsify unsets a tape-chosen subset of the policy's expectations, never the one named keep nor
// mr_seam (which some mismatch constructions fall back to).
func c18Sparsify(t *core.Tape, o *validate.Options, keep string) {
	b := &o.TdQuoteBodyOptions
	fields := []struct {
		name  string
		clear func()
	}{
		{"qe_vendor_id", func() { o.HeaderOptions.QeVendorID = nil }},
		{"minimum_qe_svn", func() { o.HeaderOptions.MinimumQeSvn = 0 }},
		{"minimum_pce_svn", func() { o.HeaderOptions.MinimumPceSvn = 0 }},
		{"minimum_tee_tcb_svn", func() { b.MinimumTeeTcbSvn = nil }},
		{"td_attributes", func() { b.TdAttributes = nil }},
		{"xfam", func() { b.Xfam = nil }},
		{"mr_td", func() { b.MrTd = nil }},
		{"any_mr_td", func() { b.AnyMrTd = nil }},
		{"mr_config_id", func() { b.MrConfigID = nil }},
		{"mr_owner", func() { b.MrOwner = nil }},
		{"mr_owner_config", func() { b.MrOwnerConfig = nil }},
		{"report_data", func() { b.ReportData = nil }},
		{"rtmr0", func() { b.Rtmrs[0] = nil }},
		{"rtmr1", func() { b.Rtmrs[1] = nil }},
		{"rtmr2", func() { b.Rtmrs[2] = nil }},
		{"rtmr3", func() { b.Rtmrs[3] = nil }},
	}
	for _, f := range fields {
		drop := t.Chance(2, 3)
		if drop && !strings.HasPrefix(keep, f.name) {
			f.clear()
		}
	}
}

// tcgEvent2 encodes one crypto-agile event with a single SHA-384 digest.
func tcgEvent2(mr, typ uint32, digest, data []byte) []byte {
	b := binary.LittleEndian.AppendUint32(nil, mr)
	b = binary.LittleEndian.AppendUint32(b, typ)
	b = binary.LittleEndian.AppendUint32(b, 1)
	b = binary.LittleEndian.AppendUint16(b, 0xc)
	b = append(b, digest...)
	b = binary.LittleEndian.AppendUint32(b, uint32(len(data)))
	return append(b, data...)
}

func c18Run(r *core.Run) {
	t := r.T
	dir := filepath.Join(repoDir(), "testing/testdata/ccel")
	ccel, e1 := os.ReadFile(filepath.Join(dir, "ccel_data.dat"))
	table, e2 := os.ReadFile(filepath.Join(dir, "ccel_table.dat"))
	sample, e3 := os.ReadFile(filepath.Join(dir, "cos-113-tdx-quote.dat"))
	if e1 != nil || e2 != nil || e3 != nil || len(sample) < c18RtmrOff+192 {
		panic(fmt.Sprintf("c18: sample CCEL data not readable: %v %v %v", e1, e2, e3))
	}
	// the world has a PCS, so that the verification gate can also be exercised with collateral and revocation
	// checking on; in half of the runs every fetch takes simulated time (fake-clock bubble)
	netLat := -1
	if r.Index%2 == 0 {
		netLat = 1 + t.Draw(7)
	}
	w := world.NewWorld(t, world.Cfg{Processor: 1, AuthLen: 0, NetLat: netLat})
	for i := 0; i < 4; i++ {
		copy(w.Quote.Rtmr[i][:], sample[c18RtmrOff+48*i:])
	}
	// In half of the runs the platform additionally measured a workload into RTMR3 at run time
	// (as rtmr.ExtendEventLog does): one more event (CC measurement register 4) is appended to
	// the log and the quote's RTMR3 is the corresponding extend value, so all four RTMRs are measured.
	if t.Bool() {
		_, _, end := tcgScan(ccel)
		payload := append([]byte("workload measurement "), t.Bytes(24)...)
		evd := sha512.Sum384(payload)
		ext := append([]byte(nil), ccel[:end]...)
		ext = append(ext, tcgEvent2(4, 6 /* EV_EVENT_TAG */, evd[:], payload)...)
		ccel = append(ext, ccel[end:]...)
		reg := sha512.Sum384(append(make([]byte, 48), evd[:]...))
		w.Quote.Rtmr[3] = reg
		r.Probe("log_extended_with_rtmr3_event")
	}
	w.Build(false)
	r.Eventf("world %s", w.Describe())
	q := w.Quote

	// in every third run all calls go through ONE long-lived verification options value (its flags, pool and
	// getter are set for each call, as a service re-using its configuration object would)
	var longOpts *verify.Options
	if r.Index%3 == 1 {
		longOpts = &verify.Options{}
		r.Probe("calls_through_one_long_lived_options_value")
	}
	var foreignPool *x509.CertPool
	call := func(qq *world.Quote, vopts *validate.Options, level int, pool bool, log []byte) (*state.FirmwareLogState, core.Outcome) {
		o := worldOpts(w, level)
		if !pool {
			// another caller's pool (a look-alike hierarchy only): one pool object for the whole run, as a service
			// holds it, so that a retry presents the very same configuration
			if foreignPool == nil {
				foreignPool = world.Pool(world.NewPKI(t, "X", w.Epoch, w.A).Root)
			}
			o.TrustedRoots = foreignPool
		}
		if longOpts != nil {
			longOpts.GetCollateral, longOpts.CheckRevocations, longOpts.Getter, longOpts.TrustedRoots, longOpts.Now = o.GetCollateral, o.CheckRevocations, o.Getter, o.TrustedRoots, o.Now
			o = longOpts
		}
		var st *state.FirmwareLogState
		out := callOnNet(o.Getter, func() error {
			var err error
			st, err = rtmr.ParseCcelWithTdQuote(log, table, qq.Proto(0), &rtmr.ParseTdxCcelOpts{Validation: vopts, Verification: o, ExtractOpt: extract.Opts{Loader: extract.GRUB}})
			return err
		})
		return st, out
	}
	noPolicy := func() *validate.Options { return &validate.Options{} }
	judge := func(item, kind string, mustFail bool, why string, st *state.FirmwareLogState, o core.Outcome) {
		r.Eval()
		r.Eventf("%s -> %s state=%v", item, errClass(o), st != nil)
		if o.Panicked {
			r.Count("panics_seen(reported by C10)", 1)
			return
		}
		if mustFail {
			if o.Err == nil {
				r.Violate("C18:state-returned:"+kind, "%s: a firmware log state was returned although %s", item, why)
			} else if st != nil {
				r.Violate("C18:state-with-error:"+kind, "%s: an error AND a state were returned although %s", item, why)
			}
		} else if o.Err != nil || st == nil {
			r.Violate("C18:honest-combination-failed:"+errClass(o), "%s: both gates hold and the replay matches, yet: %s", item, o.ErrText())
		}
	}

	// a failing gate fails whatever the event log is: the sample log, an empty or absent one, a cut one
	altLogs := []struct {
		name string
		log  []byte
	}{{"empty-log", []byte{}}, {"nil-log", nil}, {"cut-log", ccel[:len(ccel)/3]}}
	gateFail := func(item, kind, why string, qq *world.Quote, mk func() *validate.Options, lvl int, pool bool) {
		st, o := call(qq, mk(), lvl, pool, ccel)
		judge(item, kind, true, why, st, o)
		for _, al := range altLogs {
			st, o := call(qq, mk(), lvl, pool, al.log)
			judge(item+"+"+al.name, kind+"+"+al.name, true, why+" (event log: "+al.name+")", st, o)
		}
		r.Probe("failing_gate_with_other_event_logs")
	}

	// control: everything honest
	if r.Item("control:honest") {
		st, o := call(q, noPolicy(), O0, true, ccel)
		judge("control:honest", "control", false, "", st, o)
		if o.Accepted() {
			r.Probe("honest_combination_returns_state")
		}
		r.State("control")
		r.EndItem()
	}
	// policy satisfied exactly (every field set to the quote's value)
	full := func() *validate.Options {
		return &validate.Options{
			HeaderOptions: validate.HeaderOptions{QeVendorID: cp(q.QEVendor[:]), MinimumQeSvn: binary.LittleEndian.Uint16(q.QeSvn[:]), MinimumPceSvn: binary.LittleEndian.Uint16(q.PceSvn[:])},
			TdQuoteBodyOptions: validate.TdQuoteBodyOptions{MinimumTeeTcbSvn: cp(q.TeeTcbSvn[:]), MrSeam: cp(q.MrSeam[:]), TdAttributes: cp(q.TdAttr[:]), Xfam: cp(q.Xfam[:]),
				MrTd: cp(q.MrTd[:]), MrConfigID: cp(q.MrConfigID[:]), MrOwner: cp(q.MrOwner[:]), MrOwnerConfig: cp(q.MrOwnerConfig[:]), ReportData: cp(q.ReportData[:]),
				Rtmrs: [][]byte{cp(q.Rtmr[0][:]), cp(q.Rtmr[1][:]), cp(q.Rtmr[2][:]), cp(q.Rtmr[3][:])}, AnyMrTd: [][]byte{t.Bytes(48), cp(q.MrTd[:])}},
		}
	}
	if r.Item("control:full-policy") {
		st, o := call(q, full(), O0, true, ccel)
		judge("control:full-policy", "control", false, "", st, o)
		r.State("control-full-policy")
		r.EndItem()
	}
	// --- verification gate fails
	fk := world.NewKey(t)
	vfaults := []struct {
		name string
		f    func(*world.Quote)
		pool bool
		lvl  int
	}{
		{"body-signed-by-foreign-key", func(x *world.Quote) { x.SignBody(fk) }, true, O0},
		{"qe-report-signed-by-foreign-key", func(x *world.Quote) { x.SignQE(fk) }, true, O0},
		{"hash-binding-broken", func(x *world.Quote) { x.QE.ReportData[3] ^= 1; x.SignQE(w.P.PCKKey) }, true, O0},
		{"rtmr-changed-not-resigned", func(x *world.Quote) { x.Rtmr[3][0] ^= 1 }, true, O0},
		{"untrusted-root", func(x *world.Quote) {}, false, O0},
		{"revocation-without-collateral", func(x *world.Quote) {}, true, O3},
		{"report-data-changed-not-resigned", func(x *world.Quote) { x.ReportData[63] ^= 0x80 }, true, O0},
		{"binding-padding-not-zero", func(x *world.Quote) { x.QE.ReportData[32+t.Draw(32)] = byte(1 + t.Draw(255)); x.SignQE(w.P.PCKKey) }, true, O0},
		{"binding-digest-then-second-digest", func(x *world.Quote) { copy(x.QE.ReportData[32:], x.QE.ReportData[:32]); x.SignQE(w.P.PCKKey) }, true, O0},
	}
	for _, vf := range vfaults {
		if !r.Item("verify-gate:" + vf.name) {
			continue
		}
		x := q.Clone()
		vf.f(x)
		gateFail("verify-gate:"+vf.name, "verification-gate:"+vf.name, "the quote does not pass verification ("+vf.name+")", x, noPolicy, vf.lvl, vf.pool)
		if vf.lvl == O0 {
			// the same fault with collateral (and revocation) checking on: the downloads succeed, the gate still fails
			for _, lvl := range []int{O1, O2} {
				st, o := call(x, noPolicy(), lvl, vf.pool, ccel)
				judge("verify-gate:"+vf.name+"@"+optNames[lvl], "verification-gate:"+vf.name, true, "the quote does not pass verification ("+vf.name+", "+optNames[lvl]+" checking)", st, o)
			}
		}
		r.Fault("gate:verification:"+vf.name, true)
		r.State("verify-gate %s", vf.name)
		r.EndItem()
	}
	// --- a verifier whose clock lags: at the given verification time the PCK leaf (or the whole chain) is not
	// yet valid, so the quote does not pass verification at that time, by a minute or by decades
	if r.Item("verify-gate:clock-before-chain-validity") {
		saved := w.Times
		nb := w.P.PCK.X.NotBefore
		early := []time.Time{nb.Add(-time.Second), nb.Add(-4 * time.Minute), nb.Add(-36 * time.Hour), nb.AddDate(-1, 0, 0), w.A.Root.X.NotBefore.AddDate(-10, 0, 0), time.Unix(0, 0).UTC()}[t.Draw(6)]
		for i := range w.Times {
			w.Times[i] = early
		}
		gateFail("verify-gate:clock-before-chain-validity", "verification-gate:clock-before-chain-validity", fmt.Sprintf("at the given verification time (%s before the PCK leaf's notBefore) the chain is not yet valid", nb.Sub(early)), q, noPolicy, O0, true)
		w.Times = saved
		r.Fault("gate:verification:clock-before-chain-validity", true)
		r.State("verify-gate clock-before-chain-validity")
		r.EndItem()
	}
	// --- the repository's genuine sample quote (Intel-rooted) with its own event log, presented to a caller
	// whose pool lists only a private root: Intel's root is not in that pool, the gate fails
	if r.Item("verify-gate:intel-sample-under-private-pool") {
		at := time.Date(2025, 1, 1, 0, 0, 0, 0, time.UTC)
		ts := [5]time.Time{at, at, at, at, at}
		ccel0, _ := os.ReadFile(filepath.Join(dir, "ccel_data.dat"))
		m, perr := parseMsg(sample)
		if perr == nil {
			run := func(pool *x509.CertPool) (*state.FirmwareLogState, core.Outcome) {
				var st *state.FirmwareLogState
				out := core.Call(func() error {
					var err error
					st, err = rtmr.ParseCcelWithTdQuote(ccel0, table, m, &rtmr.ParseTdxCcelOpts{Validation: &validate.Options{}, Verification: mkOpts(O0, &failGetter{}, pool, ts), ExtractOpt: extract.Opts{Loader: extract.GRUB}})
					return err
				})
				return st, out
			}
			if st, o := run(nil); o.Err != nil || st == nil {
				r.Count("control_failed(intel sample under the embedded root)", 1)
			} else {
				private := world.Pool(w.A.Root)
				before := private.Clone()
				st, o := run(private)
				judge("verify-gate:intel-sample-under-private-pool", "verification-gate:intel-sample-under-private-pool", true, "the quote chains to Intel's root, which the caller's pool does not list", st, o)
				if !private.Equal(before) {
					r.Violate("C18:callers-pool-modified", "after the call the caller's TrustedRoots pool no longer holds what the caller put there (and only that)")
				}
				r.Probe("intel_sample_under_private_pool")
			}
		}
		r.Fault("gate:verification:intel-sample-under-private-pool", true)
		r.State("verify-gate intel-sample-under-private-pool")
		r.EndItem()
	}
	// --- verification gate fails because of what the collateral says
	cfaults := []struct {
		name string
		lvl  int
		set  func()
	}{
		{"leaf-revoked-among-unordered-entries", O2, func() {
			var l []*big.Int
			for i, n := 0, 2+t.Draw(6); i < n; i++ {
				l = append(l, world.RandSerial(t))
			}
			at := t.Draw(len(l) + 1)
			w.PckCrl.Revoked = append(append(append([]*big.Int(nil), l[:at]...), w.LeafSerial()), l[at:]...)
		}},
		{"intermediate-revoked-among-unordered-entries", O2, func() {
			w.RootCrl.Revoked = []*big.Int{world.RandSerial(t), world.RandSerial(t), w.InterSerial(), world.RandSerial(t)}
		}},
		{"tcb-level-out-of-date", O1, func() { w.Tcb.Levels[w.LevelIdx].Status = "OutOfDate" }},
		{"qe-identity-level-revoked", O1, func() {
			for i := range w.QE.Levels {
				w.QE.Levels[i].Status = "Revoked"
			}
		}},
	}
	for _, cf := range cfaults {
		if !r.Item("verify-gate:" + cf.name) {
			continue
		}
		savePck, saveRoot := w.PckCrl.Revoked, w.RootCrl.Revoked
		saveTcb := append([]world.TcbLevel(nil), w.Tcb.Levels...)
		saveQE := append([]world.QELevel(nil), w.QE.Levels...)
		cf.set()
		w.Publish()
		gateFail("verify-gate:"+cf.name, "verification-gate:"+cf.name, "the quote does not pass verification with "+optNames[cf.lvl]+" checking ("+cf.name+")", q, noPolicy, cf.lvl, true)
		w.PckCrl.Revoked, w.RootCrl.Revoked = savePck, saveRoot
		copy(w.Tcb.Levels, saveTcb)
		copy(w.QE.Levels, saveQE)
		w.Publish()
		r.Fault("gate:verification:"+cf.name, true)
		r.State("verify-gate %s", cf.name)
		r.EndItem()
	}
	// --- a quote that fails verification while a CRL cannot be had: "could not check revocation" is not
	// "verified" — whatever a caller makes of an unreachable CRL for a good quote, a bad one yields no state
	nfaults := []struct {
		name string
		set  func()
	}{
		{"pck-crl-endpoint-down", func() { w.PCS.PckCrl[w.CAID] = &world.Endpoint{Err: fmt.Errorf("connection refused")} }},
		{"root-crl-endpoint-down", func() {
			for u := range w.PCS.ByURL {
				w.PCS.ByURL[u] = &world.Endpoint{Err: fmt.Errorf("connection refused")}
			}
		}},
		{"pck-crl-garbage", func() { w.PCS.PckCrl[w.CAID].Body = t.Bytes(60) }},
	}
	for _, nf := range nfaults {
		if !r.Item("verify-gate:forged-quote+" + nf.name) {
			continue
		}
		x := q.Clone()
		switch t.Draw(3) {
		case 0:
			x.SignBody(fk)
		case 1:
			x.MrConfigID[t.Draw(48)] ^= 1 << t.Draw(8) // changed, not re-signed
		default:
			x.SignQE(fk)
		}
		nf.set()
		gateFail("verify-gate:forged-quote+"+nf.name, "verification-gate:forged-quote+"+nf.name, "the quote does not pass verification (forged) and a CRL cannot be obtained ("+nf.name+")", x, noPolicy, O2, true)
		// and the honest quote is not verified either when its revocation status cannot be established
		gateFail("verify-gate:honest-quote+"+nf.name, "verification-gate:honest-quote+"+nf.name, "revocation checking is on and a CRL cannot be obtained ("+nf.name+"): the quote did not pass verification under the given options", q, noPolicy, O2, true)
		w.Publish()
		r.Fault("gate:verification:"+nf.name, true)
		r.State("verify-gate forged+%s", nf.name)
		r.EndItem()
	}
	// the honest quote passes the gate with collateral and revocation checking on as well
	if r.Item("control:honest@collateral+revocation") {
		st, o := call(q, noPolicy(), O2, true, ccel)
		judge("control:honest@collateral+revocation", "control", false, "", st, o)
		r.EndItem()
	}
	// --- policy gate fails: each field mismatching by one bit
	type pf struct {
		name string
		f    func(o *validate.Options)
	}
	flip := func(b []byte) { b[t.Draw(len(b))] ^= 1 << t.Draw(8) }
	pfaults := []pf{
		{"qe_vendor_id", func(o *validate.Options) { flip(o.HeaderOptions.QeVendorID) }},
		{"mr_seam", func(o *validate.Options) { flip(o.TdQuoteBodyOptions.MrSeam) }},
		{"td_attributes", func(o *validate.Options) { flip(o.TdQuoteBodyOptions.TdAttributes) }},
		{"xfam", func(o *validate.Options) { flip(o.TdQuoteBodyOptions.Xfam) }},
		{"mr_td", func(o *validate.Options) { flip(o.TdQuoteBodyOptions.MrTd) }},
		{"mr_config_id", func(o *validate.Options) { flip(o.TdQuoteBodyOptions.MrConfigID) }},
		{"mr_owner", func(o *validate.Options) { flip(o.TdQuoteBodyOptions.MrOwner) }},
		{"mr_owner_config", func(o *validate.Options) { flip(o.TdQuoteBodyOptions.MrOwnerConfig) }},
		{"report_data", func(o *validate.Options) { flip(o.TdQuoteBodyOptions.ReportData) }},
		{"rtmr0", func(o *validate.Options) { flip(o.TdQuoteBodyOptions.Rtmrs[0]) }},
		{"rtmr1", func(o *validate.Options) { flip(o.TdQuoteBodyOptions.Rtmrs[1]) }},
		{"rtmr2", func(o *validate.Options) { flip(o.TdQuoteBodyOptions.Rtmrs[2]) }},
		{"rtmr3", func(o *validate.Options) { flip(o.TdQuoteBodyOptions.Rtmrs[3]) }},
		{"any_mr_td", func(o *validate.Options) {
			o.TdQuoteBodyOptions.AnyMrTd = [][]byte{t.Bytes(48), t.Bytes(48)}
		}},
		{"minimum_tee_tcb_svn", func(o *validate.Options) {
			i := t.Draw(16)
			if o.TdQuoteBodyOptions.MinimumTeeTcbSvn[i] < 255 {
				o.TdQuoteBodyOptions.MinimumTeeTcbSvn[i]++
			} else {
				o.TdQuoteBodyOptions.MrSeam[0] ^= 1
			}
		}},
		{"minimum_tee_tcb_svn-mixed-vector", func(o *validate.Options) {
			// an earlier component BELOW the quote's, a later component above it: component-wise the
			// quote misses the minimum, lexicographically it does not
			m := o.TdQuoteBodyOptions.MinimumTeeTcbSvn
			lo, hi := -1, -1
			for i := 0; i < 16 && lo < 0; i++ {
				if m[i] > 0 {
					lo = i
				}
			}
			for i := 15; i > lo && hi < 0; i-- {
				if m[i] < 255 {
					hi = i
				}
			}
			if lo >= 0 && hi > lo {
				m[lo]--
				m[hi]++
			} else {
				o.TdQuoteBodyOptions.MrSeam[0] ^= 1
			}
		}},
		{"minimum_qe_svn", func(o *validate.Options) {
			if o.HeaderOptions.MinimumQeSvn < 65535 {
				o.HeaderOptions.MinimumQeSvn++
			} else {
				o.TdQuoteBodyOptions.MrSeam[0] ^= 1
			}
		}},
		{"minimum_pce_svn", func(o *validate.Options) {
			if o.HeaderOptions.MinimumPceSvn < 65535 {
				o.HeaderOptions.MinimumPceSvn++
			} else {
				o.TdQuoteBodyOptions.MrSeam[0] ^= 1
			}
		}},
	}
	for _, p := range pfaults {
		if !r.Item("policy-gate:" + p.name) {
			continue
		}
		o := full()
		p.f(o)
		gateFail("policy-gate:"+p.name, "policy-gate:"+p.name, "the policy expectation "+p.name+" is not met", q, func() *validate.Options { return o }, O0, true)
		// the same mismatch in a sparse policy: a tape-chosen subset of the OTHER expectations left unset
		// (an unset RTMR entry keeps its place in the list of four)
		sp := full()
		c18Sparsify(t, sp, p.name)
		p.f(sp)
		st, out := call(q, sp, O0, true, ccel)
		judge("policy-gate-sparse:"+p.name, "policy-gate-sparse:"+p.name, true, "the policy expectation "+p.name+" is not met (other expectations partly unset)", st, out)
		r.Fault("gate:policy:"+p.name, true)
		r.State("policy-gate %s", p.name)
		r.EndItem()
	}
	// nil policy / nil verification options are gate failures too
	if r.Item("gate:nil-options") {
		var st *state.FirmwareLogState
		out := core.Call(func() error {
			var err error
			st, err = rtmr.ParseCcelWithTdQuote(ccel, table, q.Proto(0), &rtmr.ParseTdxCcelOpts{Validation: nil, Verification: worldOpts(w, O0), ExtractOpt: extract.Opts{Loader: extract.GRUB}})
			return err
		})
		judge("gate:nil-policy", "policy-gate:nil", true, "no policy was given", st, out)
		r.EndItem()
	}
	// --- every single-bit change in each RTMR the log measures, in validly re-signed quotes
	offs, mrs := tcgDigestOffsets(ccel)
	measured := map[int]bool{}
	for _, m := range mrs {
		if m >= 1 && m <= 4 {
			measured[int(m)-1] = true // CC measurement register index i+1 is RTMR i
		}
	}
	r.Eventf("log events with SHA-384 digests: %d; measured RTMRs: %v", len(offs), []bool{measured[0], measured[1], measured[2], measured[3]})
	chunks, chunk := 4, r.Index%4
	if r.Thorough() {
		chunks, chunk = 1, 0
	}
	k := 0
	for reg := 0; reg < 4; reg++ {
		for bit := 0; bit < 384; bit++ {
			k++
			if k%chunks != chunk {
				continue
			}
			item := fmt.Sprintf("rtmr-flip:%d.%d", reg, bit)
			if !r.Item(item) {
				continue
			}
			x := q.Clone()
			x.Rtmr[reg][bit/8] ^= 1 << (bit % 8)
			x.SignBody(w.P.AK) // the TDX module reported this value; signature chain valid
			st, o := call(x, noPolicy(), O0, true, ccel)
			if measured[reg] {
				judge(item, fmt.Sprintf("replay-mismatch:rtmr%d", reg), true, fmt.Sprintf("RTMR%d of the (validly signed) quote differs from the replay of the log in bit %d", reg, bit), st, o)
				r.Probe("measured_rtmr_bitflip_resigned")
				if reg == 3 {
					r.Probe("rtmr3_measured_bitflip")
				}
			} else {
				r.Eval()
				r.Count(fmt.Sprintf("unmeasured_rtmr%d_flip_accepted=%v", reg, o.Accepted()), 1)
			}
			r.State("rtmr-flip reg=%d bit%d", reg, bit%8)
			r.EndItem()
		}
	}
	// whole-register faults on measured RTMRs: reset value, all ones, another register's value
	for reg := 0; reg < 4; reg++ {
		if !measured[reg] {
			continue
		}
		vals := map[string][48]byte{"zero": {}, "ones": {}, "other-register": q.Rtmr[(reg+1)%4]}
		ones := vals["ones"]
		for i := range ones {
			ones[i] = 0xff
		}
		vals["ones"] = ones
		for _, k := range core.SortedKeys(vals) {
			item := fmt.Sprintf("rtmr-set:%d=%s", reg, k)
			if vals[k] == q.Rtmr[reg] || !r.Item(item) {
				continue
			}
			x := q.Clone()
			x.Rtmr[reg] = vals[k]
			x.SignBody(w.P.AK)
			st, o := call(x, noPolicy(), O0, true, ccel)
			judge(item, fmt.Sprintf("replay-mismatch:rtmr%d-%s", reg, k), true, fmt.Sprintf("RTMR%d of the (validly signed) quote is %s, the log replays to another value", reg, k), st, o)
			r.State("rtmr-set reg=%d %s", reg, k)
			r.EndItem()
		}
	}
	r.Fault("platform:rtmr_bitflip_resigned", true)
	// --- a digest flipped inside the log instead of in the quote
	for i := 0; i < 6 && len(offs) > 0; i++ {
		ei := t.Draw(len(offs))
		if mrs[ei] < 1 || mrs[ei] > 4 {
			continue
		}
		item := fmt.Sprintf("log-digest-flip:%d", i)
		if !r.Item(item) {
			continue
		}
		lg := append([]byte(nil), ccel...)
		lg[offs[ei]+t.Draw(48)] ^= 1 << t.Draw(8)
		st, o := call(q, noPolicy(), O0, true, lg)
		judge(item, "replay-mismatch:log-digest", true, fmt.Sprintf("the digest of log event %d (RTMR%d) was altered, so the replay no longer reproduces the quote", ei, mrs[ei]-1), st, o)
		r.Fault("firmware:log_digest_bitflip", true)
		r.Probe("log_digest_bitflip")
		r.State("log-digest-flip")
		r.EndItem()
	}
	r.Sample("world %s carrying the sample quote's RTMRs, sample CCEL (%d SHA-384 events): honest control, 7 verification-gate faults, 15 policy-gate faults, single-bit RTMR changes in re-signed quotes, log digest flips", w.Describe(), len(offs))
}

func cp(b []byte) []byte { return append([]byte(nil), b...) }

func init() {
	register(&core.Check{
		ID:    "C18",
		Level: "fault_enumeration",
		Rule: "per run one seeded world whose platform reports the sample quote's RTMRs, certified by a generated PKI; ParseCcelWithTdQuote with the repository's sample CCEL under: the honest control (no policy / full matching policy), 9 verification-gate faults (foreign-key signatures, broken binding, unsigned changes, untrusted root, revocation without collateral) each with signature checking alone and with collateral / revocation checking on (in half of the runs over a network whose fetches take 1 ms .. 11 s of simulated time), 4 faults in what the collateral says (leaf / intermediate revoked among unordered CRL entries, TCB level OutOfDate, QE level Revoked), forged and honest quotes while a CRL cannot be obtained; in every third run all calls go through one long-lived options value, 17 policy-gate faults (each expectation off by one bit / one step, nil policy) each in the full policy and in a sparse one (tape-chosen other expectations unset, unset RTMR entries keeping their place), every failing gate also with an empty, absent and cut event log, EVERY single-bit change of RTMR0..3 in validly re-signed quotes (quick: 4 runs tile the 1536 bits; thorough: all per world) and 6 digest flips inside the log. " +
			"distinct = gate fault name / (register, bit-in-byte)",
		Exhaustive: true,
		Assumptions: []string{
			"the log content is fixed (the sample CCEL); no generator for firmware event logs is built",
			"which RTMRs the log measures is read from the log by an own minimal TCG2 parser; flips in an unmeasured RTMR are counted, not judged",
			"extraction errors that go-eventlog reports together with a partial state are outside the property",
		},
		RealStub: map[string]string{"rtmr.ParseCcelWithTdQuote": "real", "verify / validate": "real", "go-eventlog replay": "real (trusted base)", "platform + CA": "stub (world)", "CCEL": "repository sample file"},
		Runs: func(tier string) int {
			if tier == "thorough" {
				return 96
			}
			return 12
		},
		Run:       c18Run,
		MustProbe: []string{"honest_combination_returns_state", "measured_rtmr_bitflip_resigned", "log_digest_bitflip", "log_extended_with_rtmr3_event", "rtmr3_measured_bitflip", "failing_gate_with_other_event_logs", "calls_through_one_long_lived_options_value", "intel_sample_under_private_pool"},
	})
}
