package checks

import (
	"bytes"
	"crypto/x509"
	"crypto/x509/pkix"
	"encoding/asn1"
	"encoding/pem"
	"fmt"
	"os"
	"path/filepath"
	"strings"
	"time"

	ccpb "github.com/google/go-tdx-guest/proto/checkconfig"
	"github.com/google/go-tdx-guest/testing/testdata"
	"github.com/google/go-tdx-guest/verify"
	"verif/sim/core"
	"verif/sim/world"
)

// C02 — trust is anchored only in the configured roots and in PCK-role certificates.

// quoteUnder builds a quote of the world's platform that is perfectly
// self-consistent under another PKI (PCK certificate issued by that PKI's CA).
func quoteUnder(w *world.World, p *world.PKI, leafSpec *world.CertSpec) (*world.Quote, *world.Cert) {
	sp := w.P.PCKSp
	if leafSpec != nil {
		sp = *leafSpec
	}
	leaf := world.Issue(sp, w.P.PCKKey, p.Plat, p.PlatKey)
	q := w.Quote.Clone()
	q.Chain = world.ChainPEM(leaf, p.Plat, p.Root, false)
	return q, leaf
}

type c02Case struct {
	name   string
	q      *world.Quote
	pool   *x509.CertPool
	expect world.Expectation
	why    string
}

func c02Run(r *core.Run) {
	t := r.T
	// the world has a PCS (every fetch takes simulated time): rejected chains are also verified with
	// collateral checking on, where the genuine collateral of the trusted hierarchy is there to be had
	w := world.NewWorld(t, world.Cfg{Processor: 1, NetLat: 1 + t.Draw(7), AuthLen: []int{0, -1, 33}[t.Draw(3)]})
	A := w.A
	B := world.NewPKI(t, "B", w.Epoch, A) // look-alike: same names, serials, validity, key ids; other keys
	if t.Bool() {
		// look-alike with its own key identifiers
		B.RootSpec.SKI, B.PlatSpec.SKI = t.Bytes(20), t.Bytes(20)
		B.Rebuild()
		r.Probe("lookalike_own_key_ids")
	} else {
		r.Probe("lookalike_same_key_ids")
	}
	C := world.NewPKI(t, "C", w.Epoch, nil)
	r.Eventf("world %s", w.Describe())
	qA := w.Quote
	qB, leafB := quoteUnder(w, B, nil)
	_ = leafB
	pools := map[string]*x509.CertPool{"nil": nil, "A": world.Pool(A.Root), "B": world.Pool(B.Root), "A+B": world.Pool(A.Root, B.Root), "C": world.Pool(C.Root), "A.intermediate": world.Pool(A.Plat), "empty": x509.NewCertPool()}
	anchors := map[string]string{"nil": "", "A": "A", "B": "B", "A+B": "AB", "C": "", "A.intermediate": "", "empty": ""}

	var cases []c02Case
	add := func(name string, q *world.Quote, pool string, e world.Expectation, why string) {
		cases = append(cases, c02Case{name + "|pool=" + pool, q, pools[pool], e, why})
	}
	// 1. (quote under X) x (pool) matrix
	for _, pn := range core.SortedKeys(pools) {
		for _, x := range []string{"A", "B"} {
			q := qA
			if x == "B" {
				q = qB
			}
			e := world.MustReject
			why := "root of PKI " + x + " is not in the pool"
			if contains(anchors[pn], x) {
				e, why = world.MustAccept, "honest quote under a listed root"
			}
			if pn == "A.intermediate" && x == "A" {
				e, why = world.DontCare, "the listed certificate is the intermediate itself"
			}
			add("matrix:quote-under-"+x, q, pn, e, why)
		}
	}
	// 1b. the same matrix rows with Options.Now unset (the library reads the clock itself): the pool
	// must be honoured all the same.  Windows are years wide, so the wall clock does not matter.
	for _, pn := range []string{"A", "B"} {
		for _, x := range []string{"A", "B"} {
			q := qA
			if x == "B" {
				q = qB
			}
			e, why := world.MustReject, "root of PKI "+x+" is not in the pool (verification time left to the library)"
			if pn == x {
				e, why = world.MustAccept, "honest quote under a listed root (verification time left to the library)"
			}
			cases = append(cases, c02Case{"now-unset:quote-under-" + x + "|pool=" + pn, q, pools[pn], e, why})
		}
	}
	// 1c. with no pool the embedded Intel root is the only anchor: a hierarchy whose root copies the
	// embedded root's raw subject, serial, key identifier and validity (own key) is not trusted.
	if intel := embeddedIntelRoot(); intel != nil {
		I := world.NewLookalikeOf(t, "I", intel, w.Epoch)
		qI, _ := quoteUnder(w, I, nil)
		cases = append(cases, c02Case{"intel-lookalike:quote-under-I|pool=nil", qI, nil, world.MustReject, "the quote's root only looks like the embedded Intel root (same subject, serial and key identifier, other key)"})
		cases = append(cases, c02Case{"intel-lookalike:quote-under-I|pool=A", qI, pools["A"], world.MustReject, "root of PKI I is not in the pool"})
		r.Probe("intel_lookalike_root")
	}
	// 1d. a self-consistent quote under the foreign PKI B whose leaf (or intermediate) is not yet valid
	// at the verification time: "not yet valid" must not short-cut the anchoring in the pool
	{
		future := world.Window{NotBefore: w.Times[world.TPck].AddDate(0, 0, 30), NotAfter: w.Times[world.TPck].AddDate(8, 0, 0)}
		sp := w.P.PCKSp
		sp.Win = future
		qf, _ := quoteUnder(w, B, &sp)
		cases = append(cases, c02Case{"not-yet-valid:leaf-under-B|pool=A", qf, pools["A"], world.MustReject, "the chain is under root B, which is not in the pool (and its leaf is not yet valid)"})
		cases = append(cases, c02Case{"not-yet-valid:leaf-under-B|pool=nil", qf, nil, world.MustReject, "the chain is under root B; only the embedded Intel root is trusted"})
		B2 := world.NewPKI(t, "B2", w.Epoch, A)
		B2.PlatSpec.Win = future
		B2.Rebuild()
		qf2, _ := quoteUnder(w, B2, &sp)
		cases = append(cases, c02Case{"not-yet-valid:intermediate-under-B|pool=A", qf2, pools["A"], world.MustReject, "the chain is under a foreign root (and its intermediate is not yet valid)"})
		r.Probe("foreign_chain_not_yet_valid")
	}
	// 1e. the same self-consistent foreign chain with a legal but unusual feature on its leaf or intermediate
	// that makes standard path validation stop early (before any path is built): whatever error that is,
	// it must not stand in for the anchoring in the pool
	{
		odd := certOddities(w.Times[world.TPck])
		for _, od := range odd {
			sp := w.P.PCKSp
			od.edit(&sp)
			ql, _ := quoteUnder(w, B, &sp)
			cases = append(cases, c02Case{"odd-foreign:leaf-" + od.name + "-under-B|pool=A", ql, pools["A"], world.MustReject, "the chain is under root B, which is not in the pool (its leaf is " + od.name + ")"})
			cases = append(cases, c02Case{"odd-foreign:leaf-" + od.name + "-under-B|pool=nil", ql, nil, world.MustReject, "the chain is under root B; only the embedded Intel root is trusted (its leaf is " + od.name + ")"})
			cases = append(cases, c02Case{"odd-foreign:leaf-" + od.name + "-under-B|pool=empty", ql, pools["empty"], world.MustReject, "the pool is empty (the leaf is " + od.name + ")"})
			B3 := world.NewPKI(t, "B3", w.Epoch, A)
			od.edit(&B3.PlatSpec)
			B3.Rebuild()
			qi, _ := quoteUnder(w, B3, nil)
			cases = append(cases, c02Case{"odd-foreign:intermediate-" + od.name + "-under-B|pool=A", qi, pools["A"], world.MustReject, "the chain is under a foreign root (its intermediate is " + od.name + ")"})
		}
		r.Probe("foreign_chain_with_unusual_certificate")
	}
	// 2. one chain element replaced by its look-alike (pool = {A})
	{
		q := qA.Clone()
		q.Chain = world.ChainPEM(w.P.PCK, A.Plat, B.Root, false)
		add("subst:root-copy-from-B", q, "A", world.DontCare, "the quote's root copy is not on the validated path")
		q = qA.Clone()
		q.Chain = world.ChainPEM(w.P.PCK, B.Plat, A.Root, false)
		add("subst:intermediate-from-B", q, "A", world.MustReject, "leaf is not signed by the quote's intermediate")
		qb, lb := quoteUnder(w, B, nil)
		qb.Chain = world.ChainPEM(lb, B.Plat, A.Root, false)
		add("subst:leaf+intermediate-from-B,root-copy-A", qb, "A", world.MustReject, "the quote's intermediate is not certified by a pool root")
		q = qA.Clone()
		q.Chain = world.ChainPEM(lb, A.Plat, A.Root, false)
		add("subst:leaf-from-B", q, "A", world.MustReject, "leaf is not signed by the quote's intermediate")
		// a leaf forged in the name of A's intermediate with a foreign CA key
		fk := world.NewKey(t)
		forged := world.Issue(w.P.PCKSp, w.P.PCKKey, A.Plat, fk)
		q = qA.Clone()
		q.Chain = world.ChainPEM(forged, A.Plat, A.Root, false)
		add("forged:leaf-in-name-of-A-intermediate", q, "A", world.MustReject, "leaf signature is not from the intermediate's key")
		// an intermediate forged in the name of A's root, leaf issued by it
		fint := world.Issue(A.PlatSpec, fk, A.Root, fk)
		fleaf := world.Issue(w.P.PCKSp, w.P.PCKKey, fint, fk)
		q = qA.Clone()
		q.Chain = world.ChainPEM(fleaf, fint, A.Root, false)
		add("forged:intermediate-in-name-of-A-root", q, "A", world.MustReject, "intermediate is not signed by a pool root")
	}
	// 2a. a complete look-alike hierarchy whose leaf becomes valid only a little after the verification time
	// (a freshly issued certificate as seen by a clock that lags): not anchored in the pool, whatever a
	// verifier thinks about clock skew
	{
		for _, d := range []time.Duration{time.Second, 90 * time.Second, 4 * time.Minute, 26 * time.Hour} {
			sp := w.P.PCKSp
			sp.Serial = world.RandSerial(t)
			sp.Win = world.Window{NotBefore: w.Times[world.TPck].Add(d), NotAfter: sp.Win.NotAfter}
			qb, _ := quoteUnder(w, B, &sp)
			add(fmt.Sprintf("fresh-leaf:quote-under-B-with-leaf-valid-from-now+%s", d), qb, "A", world.MustReject, "the chain is B's; that its leaf is not valid yet does not anchor it in A")
		}
		r.Probe("foreign_chain_with_leaf_not_yet_valid")
	}
	// 2b. an "intermediate" that carries the Platform CA's name and is signed by the trusted root's
	// key but is not a CA certificate (basic constraints CA:FALSE); the leaf is issued by its key.
	{
		k := world.NewKey(t)
		sp := A.PlatSpec
		sp.IsCA, sp.PathLen = false, -1
		sp.KeyUsage = x509.KeyUsageDigitalSignature
		notCA := world.Issue(sp, k, A.Root, A.RootKey)
		leaf := world.Issue(w.P.PCKSp, w.P.PCKKey, notCA, k)
		q := qA.Clone()
		q.Chain = world.ChainPEM(leaf, notCA, A.Root, false)
		add("notca:intermediate-without-ca-bit", q, "A", world.MustReject, "the quote's intermediate is not a CA certificate, so the leaf does not chain to the pool through an intermediate CA")
	}
	// 3. role confusion: the "leaf" is a certificate of another role certified by the trusted root A,
	// carrying an SGX extension so that extension parsing does not mask the role check, and the QE
	// report is signed by that certificate's own key.
	{
		ext := w.P.PCKSp.ExtraExt
		role := func(name string, leaf *world.Cert, key *world.Key, inter *world.Cert) {
			q := qA.Clone()
			q.Chain = world.ChainPEM(leaf, inter, A.Root, false)
			q.SignQE(key)
			add("role:"+name, q, "A", world.MustReject, "the leaf is not an Intel SGX PCK certificate issued by the quote's intermediate")
		}
		// TCB-signing-role certificate (issued by the root), as is and with an SGX extension
		role("tcb-signer-as-leaf", A.Tcb, A.TcbKey, A.Plat)
		sp := A.TcbSpec
		sp.ExtraExt = ext
		tcbX := world.Issue(sp, A.TcbKey, A.Root, A.RootKey)
		role("tcb-signer+sgxext-as-leaf,intermediate=PlatformCA", tcbX, A.TcbKey, A.Plat)
		role("tcb-signer+sgxext-as-leaf,intermediate=Root", tcbX, A.TcbKey, A.Root)
		// a TCB-signing-named certificate issued by the Platform CA key with an SGX extension
		sp2 := w.P.PCKSp
		sp2.CN = world.CNTcbSigner
		k2 := world.NewKey(t)
		role("tcb-signing-name-issued-by-PlatformCA", world.Issue(sp2, k2, A.Plat, A.PlatKey), k2, A.Plat)
		// the intermediate CA certificate used as leaf
		role("intermediate-as-leaf", A.Plat, A.PlatKey, A.Plat)
		spi := A.PlatSpec
		spi.ExtraExt = ext
		spi.CRLDP = nil
		platX := world.Issue(spi, A.PlatKey, A.Root, A.RootKey)
		role("intermediate+sgxext-as-leaf,intermediate=Root", platX, A.PlatKey, A.Root)
		// the root certificate used as leaf
		role("root-as-leaf", A.Root, A.RootKey, A.Root)
		// a certificate named like a PCK certificate but issued by the TCB-signing key (not a CA)
		sp3 := w.P.PCKSp
		k3 := world.NewKey(t)
		role("pck-named-issued-by-tcb-signer", world.Issue(sp3, k3, A.Tcb, A.TcbKey), k3, A.Tcb)
	}
	// 3b. a leaf that carries the PCK name and is issued by the trusted Platform CA but is not a PCK
	// certificate: no SGX extension, another extension in its place, or an SGX extension that does not decode
	{
		k := world.NewKey(t)
		mkq := func(name string, edit func(*world.CertSpec)) {
			sp := w.P.PCKSp
			sp.Serial = world.RandSerial(t)
			edit(&sp)
			leaf := world.Issue(sp, k, w.CA, w.CAKey)
			q := qA.Clone()
			q.Chain = world.ChainPEM(leaf, w.CA, A.Root, false)
			q.SignQE(k)
			add("role:pck-named-"+name, q, "A", world.MustReject, "the leaf is named like a PCK certificate but is not one ("+name+")")
		}
		mkq("without-sgx-extension", func(s *world.CertSpec) { s.ExtraExt = nil })
		mkq("other-extension-in-place-of-sgx", func(s *world.CertSpec) {
			e := s.ExtraExt[0]
			e.Id = asn1.ObjectIdentifier{1, 3, 6, 1, 4, 1, 55555, 2}
			s.ExtraExt = []pkix.Extension{e}
		})
		mkq("sgx-extension-truncated", func(s *world.CertSpec) {
			e := s.ExtraExt[0]
			e.Value = append([]byte(nil), e.Value[:len(e.Value)/2]...)
			s.ExtraExt = []pkix.Extension{e}
		})
		mkq("sgx-extension-empty-sequence", func(s *world.CertSpec) {
			e := s.ExtraExt[0]
			e.Value = []byte{0x30, 0x00}
			s.ExtraExt = []pkix.Extension{e}
		})
		r.Probe("pck_named_leaf_without_sgx_extension")
	}
	// 4. Intel's own sample quote is not trusted by a pool that lists only A
	long := mkOpts(O0, &failGetter{}, nil, w.Times)
	r.Probe("long_lived_options_across_pools")
	for _, c := range cases {
		if !r.Item(c.name) {
			continue
		}
		raw := c.q.Bytes()
		var poolBefore *x509.CertPool
		if c.pool != nil {
			poolBefore = c.pool.Clone()
		}
		op1, op2 := mkOpts(O0, &failGetter{}, c.pool, w.Times), mkOpts(O0, &failGetter{}, c.pool, w.Times)
		if strings.HasPrefix(c.name, "now-unset:") {
			op1.Now, op2.Now = nil, nil
		}
		o := verifyRaw(raw, op1)
		o2 := verifyMsg(c.q.Proto(0), op2)
		r.Eval()
		r.Eventf("%s expect=%s -> raw:%s msg:%s", c.name, c.expect, errClass(o), errClass(o2))
		r.State("%s", c.name)
		kind := c.name
		for i := range kind {
			if kind[i] == '|' {
				kind = kind[:i]
				break
			}
		}
		if c.expect != world.MustAccept {
			r.Fault("pki:"+kind, true)
		}
		outs, forms := []core.Outcome{o, o2}, []string{"RawTdxQuote", "TdxQuote(message)"}
		if !strings.HasPrefix(c.name, "now-unset:") {
			// one long-lived options value serves the whole list of cases; only its pool is exchanged between
			// calls.  What it trusted for an earlier chain is of no consequence for this one.
			long.TrustedRoots = c.pool
			outs = append(outs, verifyRaw(raw, long))
			forms = append(forms, "RawTdxQuote through a long-lived options value whose TrustedRoots was exchanged after earlier verifications")
			r.Eval()
		}
		if c.expect == world.MustReject && !strings.HasPrefix(c.name, "now-unset:") {
			// a chain that is not anchored is not anchored with collateral checking on either — while the
			// (slow) downloads of the trusted hierarchy's genuine collateral succeed
			outs = append(outs, verifyRaw(raw, mkOpts(O1, w.PCS, c.pool, w.Times)))
			forms = append(forms, "RawTdxQuote with collateral checking")
			r.Eval()
			r.Probe("rejected_chain_with_collateral_checking_on_slow_network")
		}
		if c.pool != nil && !c.pool.Equal(poolBefore) {
			// the pool is the caller's statement of whom it trusts; a verifier that adds to it changes that statement
			r.Violate("C02:callers-pool-modified", "%s: after verification the caller's TrustedRoots pool no longer holds what the caller put there (and only that)", c.name)
		}
		for i, oc := range outs {
			form := forms[i]
			switch {
			case c.expect == world.MustReject && oc.Accepted():
				r.Violate("C02:accepted:"+c.name, "%s accepted by %s although %s", c.name, form, c.why)
			case c.expect == world.MustAccept && !oc.Accepted():
				r.Count("control_failed", 1) // reported by C11
				r.Violate("C02:listed-root-not-trusted:"+kind, "%s rejected by %s although %s: %s", c.name, form, c.why, oc.ErrText())
			}
		}
		r.EndItem()
	}
	if r.Item("intel-sample|pool=A") {
		o := verifyRaw(testdata.RawQuote, mkOpts(O0, &failGetter{}, pools["A"], refTimes()))
		r.Eval()
		r.State("intel-sample|pool=A")
		r.Eventf("intel sample quote with pool {A} -> %s", errClass(o))
		if o.Accepted() {
			r.Violate("C02:accepted:intel-sample-under-foreign-pool", "Intel's sample quote accepted although the pool lists only a generated root")
		}
		r.EndItem()
	}

	// 4b. whatever pool object the library hands out with its default options is the caller's to extend;
	// verifications that name no pool keep trusting the embedded Intel root only
	if r.Item("default-options-pool-extended-by-caller") {
		d := verify.DefaultOptions()
		if d.TrustedRoots != nil {
			d.TrustedRoots.AddCert(B.Root.X)
			r.Probe("default_options_hand_out_a_pool")
		}
		for _, o := range []*verify.Options{mkOpts(O0, &failGetter{}, nil, w.Times), func() *verify.Options {
			x := verify.DefaultOptions()
			x.Getter, x.Now, x.GetCollateral, x.CheckRevocations = &failGetter{}, timeSet(w.Times), false, false
			return x
		}()} {
			out := verifyRaw(qB.Bytes(), o)
			r.Eval()
			if out.Accepted() {
				r.Violate("C02:accepted:no-pool-after-a-caller-extended-the-default-options-pool", "a quote under the look-alike root B is accepted by a verification that names no pool (embedded Intel root only), after another caller added B to the pool it got from DefaultOptions()")
			}
		}
		r.State("default-options-pool-extended-by-caller")
		r.EndItem()
	}
	// 5. root-of-trust configurations (bundle files on a simulated disk, inline PEM)
	c02RootOfTrust(r, w, A, B, C, qA, qB)
	r.Sample("world %s with look-alike PKI B and unrelated PKI C: %d (quote,pool) cases + root-of-trust configurations; e.g. role:tcb-signer+sgxext-as-leaf (QE report signed by the TCB-signing key) rejected", w.Describe(), len(cases))
}

// embeddedIntelRoot reads the root certificate the library embeds (from the repository tree).
func embeddedIntelRoot() *x509.Certificate {
	b, err := os.ReadFile(filepath.Join(repoDir(), "verify/trusted_root.pem"))
	if err != nil {
		return nil
	}
	blk, _ := pem.Decode(b)
	if blk == nil {
		return nil
	}
	c, err := x509.ParseCertificate(blk.Bytes)
	if err != nil {
		return nil
	}
	return c
}

func contains(set, x string) bool {
	for i := range set {
		if string(set[i]) == x {
			return true
		}
	}
	return false
}

type c02Bundle struct {
	name  string
	data  []byte
	lists string // which roots ("A","B","C") a reader of this bundle would find
	kind  string // file state: ok, missing, dir
}

func c02RootOfTrust(r *core.Run, w *world.World, A, B, C *world.PKI, qA, qB *world.Quote) {
	t := r.T
	dir, err := os.MkdirTemp("", "verif-c02-")
	if err != nil {
		panic(err)
	}
	defer os.RemoveAll(dir)
	pemA, pemB, pemC := A.Root.PEM(), B.Root.PEM(), C.Root.PEM()
	keyBlock := pem.EncodeToMemory(&pem.Block{Type: "EC PRIVATE KEY", Bytes: t.Bytes(80)})
	csrBlock := pem.EncodeToMemory(&pem.Block{Type: "CERTIFICATE REQUEST", Bytes: A.Root.DER})
	bundles := []c02Bundle{
		{"A", pemA, "A", "ok"},
		{"B", pemB, "B", "ok"},
		{"A+B", append(append([]byte(nil), pemA...), pemB...), "AB", "ok"},
		{"C", pemC, "C", "ok"},
		{"empty", []byte{}, "", "ok"},
		{"garbage", t.Bytes(200), "", "ok"},
		{"pem-without-certs", append(append([]byte(nil), keyBlock...), csrBlock...), "", "ok"},
		{"A-truncated", pemA[:len(pemA)/2], "", "ok"},
		{"A-der-not-pem", A.Root.DER, "", "ok"},
		{"text+A", append([]byte("# trusted roots\n\n"), pemA...), "A", "ok"},
		{"truncatedB+A", append(append([]byte(nil), pemB[:len(pemB)-40]...), pemA...), "", "ok"}, // the unterminated block swallows what follows
		{"missing", nil, "", "missing"},
		{"directory", nil, "", "dir"},
	}
	paths := map[string]string{}
	for _, b := range bundles {
		p := filepath.Join(dir, b.name+".pem")
		switch b.kind {
		case "ok":
			if err := os.WriteFile(p, b.data, 0o600); err != nil {
				panic(err)
			}
		case "dir":
			os.Mkdir(p, 0o700)
		}
		paths[b.name] = p
	}
	byName := map[string]c02Bundle{}
	for _, b := range bundles {
		// which roots a reader of this bundle finds: decided by the standard PEM reader (trusted base), not by hand
		b.lists = ""
		for rest := b.data; len(rest) > 0; {
			var blk *pem.Block
			blk, rest = pem.Decode(rest)
			if blk == nil {
				break
			}
			if blk.Type != "CERTIFICATE" || len(blk.Headers) != 0 {
				continue
			}
			for _, cand := range []struct {
				n string
				c *world.Cert
			}{{"A", A.Root}, {"B", B.Root}, {"C", C.Root}} {
				if string(blk.Bytes) == string(cand.c.DER) {
					b.lists += cand.n
				}
			}
		}
		byName[b.name] = b
	}
	// configurations: a tape-chosen mix, plus fixed corner cases
	type cfgT struct {
		files, inline []string
	}
	cfgs := []cfgT{
		{nil, nil},
		{[]string{"A"}, nil}, {nil, []string{"A"}}, {[]string{"B"}, nil}, {nil, []string{"B"}},
		{[]string{"A"}, []string{"B"}}, {[]string{"A", "B"}, nil}, {[]string{"A+B"}, nil}, {[]string{"C"}, nil},
		{[]string{"empty"}, nil}, {nil, []string{"empty"}}, {[]string{"garbage"}, nil}, {nil, []string{"garbage"}},
		{[]string{"pem-without-certs"}, nil}, {nil, []string{"pem-without-certs"}}, {[]string{"A-truncated"}, nil}, {[]string{"A-der-not-pem"}, nil},
		{[]string{"text+A"}, nil}, {[]string{"missing"}, nil}, {[]string{"directory"}, nil},
		{[]string{"A", "missing"}, nil}, {[]string{"A", "empty"}, nil}, {[]string{"empty"}, []string{"A"}}, {[]string{"C"}, []string{"empty"}},
	}
	names := []string{"A", "B", "A+B", "C", "empty", "garbage", "pem-without-certs", "A-truncated", "text+A", "missing"}
	for i := 0; i < 4; i++ {
		var c cfgT
		for j, n := 0, t.Draw(3); j < n; j++ {
			c.files = append(c.files, names[t.Draw(len(names))])
		}
		for j, n := 0, t.Draw(3); j < n; j++ {
			c.inline = append(c.inline, names[t.Draw(len(names)-1)])
		}
		cfgs = append(cfgs, c)
	}
	for _, c := range cfgs {
		name := fmt.Sprintf("rot:files=%v,inline=%v", c.files, c.inline)
		if !r.Item(name) {
			continue
		}
		rot := &ccpb.RootOfTrust{}
		listed := ""
		allUsable := true // every listed bundle is a readable file that contributes at least one certificate
		for _, f := range c.files {
			rot.CabundlePaths = append(rot.CabundlePaths, paths[f])
			listed += byName[f].lists
			if byName[f].lists == "" {
				allUsable = false
			}
		}
		for _, f := range c.inline {
			rot.Cabundles = append(rot.Cabundles, string(byName[f].data))
			listed += byName[f].lists
			if byName[f].lists == "" {
				allUsable = false
			}
		}
		// the other root-of-trust settings do not change which roots are trusted
		rot.GetCollateral = t.Bool()
		rot.CheckCrl = rot.GetCollateral && t.Bool()
		var opts *verify.Options
		oc := core.Call(func() error {
			var err error
			opts, err = verify.RootOfTrustToOptions(rot)
			return err
		})
		r.Eval()
		r.State("rot files=%v inline=%v", c.files, c.inline)
		r.Eventf("%s listed=%q -> %s", name, listed, errClass(oc))
		if !allUsable {
			r.Fault("bundle_unusable", !oc.Accepted())
		}
		if oc.Panicked {
			r.Violate("C02:rot-panic", "%s: RootOfTrustToOptions panicked: %s", name, oc.PanicVal)
			r.EndItem()
			continue
		}
		nonEmptyCfg := len(c.files)+len(c.inline) > 0
		if oc.Err != nil {
			if allUsable && nonEmptyCfg {
				r.Violate("C02:rot-good-config-refused", "%s: every bundle is readable and holds a certificate, yet: %v", name, oc.Err)
			}
			r.EndItem()
			continue
		}
		if nonEmptyCfg && listed == "" {
			r.Violate("C02:rot-lists-nothing-but-ok", "%s lists no certificate at all, yet RootOfTrustToOptions succeeded (falls back to what?)", name)
		}
		// the options trust exactly the listed roots
		opts.Getter = &failGetter{}
		for _, x := range []string{"A", "B"} {
			q := qA
			if x == "B" {
				q = qB
			}
			o := *opts
			o.Now = timeSet(w.Times)
			o.GetCollateral, o.CheckRevocations = false, false // anchoring only
			out := verifyRaw(q.Bytes(), &o)
			r.Eval()
			trusted := contains(listed, x)
			if out.Accepted() && !trusted {
				r.Violate("C02:rot-accepted-unlisted-root", "%s: quote under PKI %s accepted, but the configuration lists only %q", name, x, listed)
			}
			if !out.Accepted() && trusted && allUsable {
				r.Violate("C02:rot-listed-root-not-trusted", "%s: quote under listed PKI %s rejected: %s", name, x, out.ErrText())
			}
		}
		// Intel's own sample quote chains to the embedded Intel root: trusted by the empty configuration only
		{
			o := *opts
			o.Now = timeSet(refTimes())
			o.GetCollateral, o.CheckRevocations = false, false
			out := verifyRaw(testdata.RawQuote, &o)
			r.Eval()
			if nonEmptyCfg && out.Accepted() {
				r.Violate("C02:rot-accepted-unlisted-root", "%s (get_collateral=%v check_crl=%v): Intel's sample quote (under the embedded Intel root) accepted, but the configuration lists only %q", name, rot.GetCollateral, rot.CheckCrl, listed)
			}
			if !nonEmptyCfg && !out.Accepted() {
				r.Count("control_failed", 1)
			}
			if nonEmptyCfg && rot.GetCollateral {
				r.Probe("own_roots_with_get_collateral")
			}
		}
		if !nonEmptyCfg {
			r.Probe("empty_config_uses_embedded_root")
		}
		r.EndItem()
	}
	// a bundle file is rotated in place (same path, same size, same modification time): the next
	// configuration load must trust what the file lists NOW
	if r.Item("rot:bundle-rotated-in-place") {
		p := filepath.Join(dir, "rotating.pem")
		size := len(pemA)
		if len(pemB) > size {
			size = len(pemB)
		}
		pad := func(b []byte) []byte {
			return append(append([]byte(nil), b...), bytes.Repeat([]byte("\n"), size-len(b))...)
		}
		stamp := w.Epoch
		load := func(content []byte) *verify.Options {
			os.WriteFile(p, pad(content), 0o600)
			os.Chtimes(p, stamp, stamp)
			o, err := verify.RootOfTrustToOptions(&ccpb.RootOfTrust{CabundlePaths: []string{p}})
			if err != nil {
				return nil
			}
			o.Getter, o.Now = &failGetter{}, timeSet(w.Times)
			return o
		}
		first := load(pemA)
		second := load(pemB)
		r.Eval()
		r.State("rot bundle-rotated-in-place")
		if first != nil && second != nil {
			if !verifyRaw(qA.Bytes(), first).Accepted() {
				r.Count("control_failed", 1)
			}
			okB := verifyRaw(qB.Bytes(), second).Accepted()
			okA := verifyRaw(qA.Bytes(), second).Accepted()
			r.Eventf("bundle rotated A->B in place: quote under B accepted=%v, quote under A accepted=%v", okB, okA)
			if okA {
				r.Violate("C02:rot-rotated-bundle-still-trusts-old-root", "the bundle file now lists only root B (same path, size and mtime as before), yet a quote under the withdrawn root A is accepted")
			}
			if !okB {
				r.Violate("C02:rot-rotated-bundle-new-root-not-trusted", "the bundle file now lists root B (same path, size and mtime as before), yet a quote under B is rejected")
			}
		}
		r.Fault("disk:bundle_rotated_in_place", true)
		r.EndItem()
	}
	r.Probe("root_of_trust_configs")
}

func init() {
	register(&core.Check{
		ID:        "C02",
		Isolate:   true, // a pool that the code under test shares process-wide makes parallel runs crash (AddCert is not goroutine-safe)
		RetrySafe: true,
		Level:     "exploration",
		Rule: "per run: seeded PKI A, look-alike PKI B (identical names, serials, validity; same or own key identifiers) and unrelated PKI C; quotes self-consistent under A and under B x 7 pools (nil/embedded, {A},{B},{A,B},{C},{A's intermediate},{}); 6 single-element substitutions / in-name-of forgeries; foreign chains whose leaf or intermediate carries a legal but unusual feature that stops path validation early (expired, not yet valid, critical SGX or unknown extension, client-only EKU, authorityKeyIdentifier absent or in issuer+serial form, no key usage) under pools {A}, nil, {}; 9 role-confusion chains (TCB-signing / intermediate / root certificate as leaf, with SGX extension added, QE report signed by that certificate's key) and 4 PCK-named leaves under the trusted Platform CA that are not PCK certificates (no SGX extension, another OID in its place, truncated or empty SGX value); Intel's sample quote under {A}; 28 root-of-trust configurations (files on a temp disk: valid, two roots, empty, garbage, PEM without certificates, truncated, DER, missing, directory; inline PEM; tape-chosen mixes). " +
			"distinct = case name (every case except the listed-root controls carries a PKI or disk fault)",
		Assumptions: []string{
			"{A's intermediate} as pool with a quote under A is don't-care (the listed certificate is the intermediate itself)",
			"the quote's own root copy is not on the validated path: substituting only it is don't-care",
		},
		RealStub: map[string]string{"verify.TdxQuote/RawTdxQuote": "real", "verify.RootOfTrustToOptions": "real", "crypto/x509 path validation": "real (trusted base)", "Intel CA hierarchies A/B/C": "stub (world)", "bundle files": "real files in a per-run temp dir (simulated disk states)"},
		Runs: func(tier string) int {
			if tier == "thorough" {
				return 6000
			}
			return 96
		},
		Run:       c02Run,
		MustProbe: []string{"foreign_chain_not_yet_valid", "lookalike_own_key_ids", "lookalike_same_key_ids", "root_of_trust_configs", "empty_config_uses_embedded_root", "intel_lookalike_root", "foreign_chain_with_unusual_certificate", "pck_named_leaf_without_sgx_extension", "own_roots_with_get_collateral", "rejected_chain_with_collateral_checking_on_slow_network", "long_lived_options_across_pools"},
	})
}
