package checks

import (
	"bytes"
	"crypto"
	_ "crypto/sha1"
	_ "crypto/sha256"
	"crypto/sha512"
	"fmt"
	_ "golang.org/x/crypto/sha3" // links SHA3-*: SHA3-384 has the same output size as SHA-384
	"math"
	"testing"
	"testing/synctest"
	"time"

	"github.com/google/go-tdx-guest/rtmr"
	"verif/sim/core"
	"verif/sim/world"
)

// C17 — RTMR extension writes exactly the requested digest to the requested register.

type c17Req struct {
	eventLog bool
	index    int
	digest   []byte
	hash     crypto.Hash
	log      []byte
}

func (q c17Req) String() string {
	if q.eventLog {
		return fmt.Sprintf("ExtendEventLog(index=%d, hash=%d, log=%dB)", q.index, q.hash, len(q.log))
	}
	return fmt.Sprintf("ExtendDigest(index=%d, digest=%dB)", q.index, len(q.digest))
}

func (q c17Req) valid() bool {
	if q.index < 0 || q.index > 3 {
		return false
	}
	if q.eventLog {
		return q.hash == crypto.SHA384 && len(q.log) > 0
	}
	return len(q.digest) == 48
}

func (q c17Req) want() []byte {
	if q.eventLog {
		h := sha512.Sum384(q.log)
		return h[:]
	}
	return q.digest
}

var sha3Linked bool

func c17Draw(t *core.Tape, bigLog []byte) c17Req {
	idx := []int{math.MinInt32, -1, 0, 1, 2, 3, 4, 5, math.MaxInt32, 0, 1, 2, 3, 0, 1, 2, 3}[t.Draw(17)]
	if t.Chance(1, 8) {
		// indices that are 0..3 only after truncation to 8, 16 or 32 bits (int is 64 bits wide here), and the extremes
		idx = []int{1 << 32, 1<<32 + 2, 3<<32 + 3, 1 << 62, 1<<16 + 1, 1<<8 + 2, 256, -(1 << 32), -(1 << 32) + 1, math.MaxInt64, math.MinInt64}[t.Draw(11)]
	}
	if t.Bool() {
		l := []int{0, 1, 47, 48, 49, 64, 48, 48, 48, 48}[t.Draw(10)]
		return c17Req{index: idx, digest: t.Bytes(l)}
	}
	h := []crypto.Hash{crypto.SHA1, crypto.SHA256, crypto.SHA384, crypto.SHA512, crypto.Hash(0), crypto.SHA3_384, crypto.SHA512_256, crypto.Hash(1 + t.Draw(24)), crypto.SHA384, crypto.SHA384, crypto.SHA384, crypto.SHA384}[t.Draw(12)]
	if h == crypto.SHA3_384 && h.Available() {
		sha3Linked = true
	}
	var lg []byte
	switch t.Draw(6) {
	case 0:
		lg = nil
	case 1:
		lg = []byte{}
	case 2:
		lg = t.Bytes(1)
	case 3:
		lg = bigLog
	default:
		lg = t.Bytes(1 + t.Draw(200))
	}
	return c17Req{eventLog: true, index: idx, hash: h, log: lg}
}

func c17Run(r *core.Run) {
	t := r.T
	tsm := world.NewTSM()
	// how this kernel shows attributes: an entry not yet bound reads as an error / empty / "-1"; a bound
	// index with or without the trailing newline
	tsm.UnboundIndex = t.Draw(3)
	tsm.IndexNoNewline = t.Chance(1, 4)
	// pre-existing entries
	switch t.Draw(5) {
	case 0:
	case 1:
		// an entry somebody else made: its name is none of the library's business, its index attribute is
		name := []string{"rtmr2-boot", "boot-measurements", "entry7", "rtmr3-misnamed"}[t.Draw(4)]
		tsm.Entries[name] = &world.TSMEntry{Index: 2}
		r.Probe("preexisting_entry_same_index")
	case 2:
		tsm.Entries["aaa-unbound"] = &world.TSMEntry{Index: -1}
		if t.Bool() {
			tsm.Entries["rtmr0-x"] = &world.TSMEntry{Index: 0}
		}
		r.Probe("preexisting_unbound_entry")
	case 3:
		tsm.Entries["zzz-unreadable"] = &world.TSMEntry{Index: 1, Unreadable: true}
		r.Probe("preexisting_entry_unreadable_index")
	case 4:
		foreign := t.Bool()
		for i := 0; i < 4; i++ {
			n := fmt.Sprintf("rtmr%d-pre", i)
			if foreign {
				n = fmt.Sprintf("measurement-register-%c", 'a'+byte(3-i))
			}
			tsm.Entries[n] = &world.TSMEntry{Index: i}
		}
	}
	faulty := r.Index%3 == 2 // fault-injecting configurations run apart from fault-free ones
	slow := r.Index%3 == 1   // a TSM whose operations take simulated time (fault-free)
	if slow {
		base := []time.Duration{time.Millisecond, 40 * time.Millisecond, 1500 * time.Millisecond, 31 * time.Second}[t.Draw(4)]
		slowKind := []string{"write", "read", "readdir", "mkdir", ""}[t.Draw(5)]
		tsm.Latency = func(kind, path string) time.Duration {
			if slowKind == "" || kind == slowKind {
				return base
			}
			return time.Millisecond
		}
		r.Probe("slow_tsm")
	}
	bigLog := t.Bytes(1 << 20)
	model := map[int][48]byte{}
	n := 1 + t.Draw(12)
	r.Eventf("tsm entries=%d faulty=%v history=%d", len(tsm.Entries), faulty, n)
	for i := 0; i < n; i++ {
		q := c17Draw(t, bigLog)
		tsm.Ops = nil
		tsm.Fired = false
		tsm.FailAt, tsm.FailKind = 0, ""
		if faulty && t.Chance(1, 2) {
			tsm.FailAt = tsm.CallsSoFar() + 1 + t.Draw(6)
			if t.Chance(1, 3) {
				// a persistent fault: every call of one kind fails from now on (for this request)
				tsm.FailKind = []string{"readdir", "read", "write", "mkdir"}[t.Draw(4)]
				tsm.FailAt = tsm.CallsSoFar() + 1
				r.Probe("persistent_io_fault")
			}
		}
		before := map[int][48]byte{}
		for k, v := range tsm.Reg {
			before[k] = v
		}
		preBound := tsm.BoundReadable(q.index)
		preUnreadable := tsm.BoundUnreadable(q.index)
		var o core.Outcome
		call := func() {
			if q.eventLog {
				o = core.Call(func() error { return rtmr.ExtendEventLogClient(tsm, q.index, q.hash, q.log) })
			} else {
				o = core.Call(func() error { return rtmr.ExtendDigestClient(tsm, q.index, q.digest) })
			}
		}
		if slow {
			// a TSM whose operations take (simulated) time: the request runs in a fake-clock bubble, and after it
			// has returned the clock runs on for an hour, so that whatever was still on its way has landed
			// before the registers are looked at
			leak := ""
			func() {
				defer func() {
					if p := recover(); p != nil {
						leak = fmt.Sprint(p)
					}
				}()
				synctest.Test(r.TB, func(*testing.T) {
					tsm.InBubble = true
					defer func() { tsm.InBubble = false }()
					call()
					time.Sleep(time.Hour)
					synctest.Wait()
				})
			}()
			tsm.InBubble = false
			if leak != "" {
				r.Violate("C17:goroutines-left-blocked", "%s: after the request returned, goroutines it started were still blocked: %s", q, leak)
			}
		} else {
			call()
		}
		r.Eval()
		dw := tsm.DigestWrites()
		r.Eventf("req %d %s valid=%v -> %s ops=%d writes=%d digest-writes=%d fault-fired=%v", i, q, q.valid(), errClass(o), len(tsm.Ops), tsm.Writes(), len(dw), tsm.Fired)
		r.State("%s idx=%s valid=%v fault=%v acc=%v", tern(q.eventLog, "log", "digest"), idxBucket(q.index), q.valid(), tsm.Fired, o.Accepted())
		if tsm.FailAt > 0 {
			r.Fault("tsm:io_error_at_kth_call", tsm.Fired)
		}
		if o.Panicked {
			r.Violate("C17:panic", "%s panicked: %s [%s]", q, o.PanicVal, o.Stack)
			continue
		}
		if !q.valid() {
			if o.Err == nil {
				r.Violate("C17:invalid-request-accepted:"+c17Why(q), "%s is invalid but returned nil", q)
			}
			if w := tsm.Writes(); w != 0 {
				r.Violate("C17:invalid-request-wrote:"+c17Why(q), "%s is invalid but caused %d write operation(s) on the TSM interface (first: %s %s)", q, w, firstWrite(tsm).Kind, firstWrite(tsm).Path)
			}
			r.Probe("invalid_request")
			continue
		}
		want := q.want()
		// registers other than the requested one never change; the requested one is unchanged or extended once by want
		ext := func(cur [48]byte) [48]byte {
			return sha512.Sum384(append(append([]byte(nil), cur[:]...), want...))
		}
		for k := range tsm.Reg {
			if k != q.index && tsm.Reg[k] != before[k] {
				r.Violate("C17:other-register-changed", "%s changed register %d", q, k)
			}
		}
		cur := tsm.Reg[q.index]
		once := ext(before[q.index])
		unchanged := cur == before[q.index]
		extended := cur == once
		for _, w := range dw {
			if !w.Err && !bytes.Equal(w.Data, want) {
				r.Violate("C17:wrong-digest-written", "%s wrote a digest that is neither the given digest nor SHA-384 of the log", q)
			}
			if !w.Err && tsm.EntryIndex(w.Path) != q.index {
				r.Violate("C17:wrong-register", "%s extended the entry bound to index %d", q, tsm.EntryIndex(w.Path))
			}
		}
		if !tsm.Fired {
			// fault-free: exactly one extend of exactly the digest on the right entry, entry re-used
			if o.Err != nil && preUnreadable {
				// an entry owns the index but cannot be identified: the request cannot be served; not judged
				r.Count("unservable_unreadable_entry", 1)
				continue
			}
			if o.Err != nil {
				r.Violate("C17:valid-request-failed", "%s is valid and no fault was injected, yet: %v", q, o.Err)
				continue
			}
			if len(dw) != 1 || !extended {
				r.Violate("C17:not-exactly-one-extend", "%s: %d digest writes; register extended exactly once = %v", q, len(dw), extended)
			}
			hadEntry := false
			for _, op := range tsm.Ops {
				if op.Kind == "mkdir" {
					hadEntry = true
				}
			}
			if hadEntry {
				r.Probe("entry_created")
			} else {
				r.Probe("entry_reused")
			}
			if preBound && hadEntry {
				r.Violate("C17:entry-not-reused", "%s created a new entry although one bound to index %d exists", q, q.index)
			}
			model[q.index] = ext(c17Model(model, before, q.index))
		} else {
			// under an injected I/O error: fail or succeed, never wrong data, never twice
			if !unchanged && !extended {
				r.Violate("C17:register-corrupted-under-fault", "%s under an injected I/O error left register %d neither unchanged nor extended exactly once", q, q.index)
			}
			if o.Err == nil && !extended {
				r.Violate("C17:success-without-extend-under-fault", "%s returned nil under an injected I/O error but the register was not extended", q)
			}
			if extended {
				model[q.index] = once
			}
			r.Probe("io_fault_fired")
		}
	}
	// two callers at once (fault-free runs on an instant TSM): each extends its own register with its own event
	// log or digest; the seeded scheduler moves between them at the TSM operations.  Each register receives
	// exactly its caller's digest, whatever the interleaving.
	if !faulty && !slow {
		c17Concurrent(r, tsm, model)
	}
	// after the history every register equals the extend chain of the accepted digests, in call order
	for _, k := range []int{0, 1, 2, 3} {
		if m, ok := model[k]; ok && tsm.Reg[k] != m {
			r.Violate("C17:register-chain-mismatch", "register %d differs from the SHA-384 extend chain of the accepted digests", k)
		}
	}
	r.Sample("history of %d extend requests (indices incl. -2^31,-1,4,5,2^31-1; digest lengths 0/1/47/48/49/64; hash SHA-1/256/384/512/0; logs nil/empty/1B/1MiB) against a model TSM with %d pre-existing entries, faulty=%v", n, len(tsm.Entries), faulty)
}

func c17Concurrent(r *core.Run, tsm *world.TSM, model map[int][48]byte) {
	t := r.T
	ia := t.Draw(4)
	ib := (ia + 1 + t.Draw(3)) % 4
	mk := func(idx int) c17Req {
		if t.Bool() {
			return c17Req{eventLog: true, index: idx, hash: crypto.SHA384, log: t.Bytes(1 + t.Draw(300))}
		}
		return c17Req{index: idx, digest: t.Bytes(48)}
	}
	reqs := [2]c17Req{mk(ia), mk(ib)}
	if tsm.BoundUnreadable(ia) || tsm.BoundUnreadable(ib) {
		return // an entry owns the index but cannot be identified: not servable (see above)
	}
	before := map[int][48]byte{}
	for k, v := range tsm.Reg {
		before[k] = v
	}
	tsm.Ops, tsm.FailAt, tsm.FailKind, tsm.Fired = nil, 0, "", false
	sched := core.NewSched()
	changes := map[int]bool{}
	for i, n := 0, 1+t.Draw(5); i < n; i++ {
		changes[t.Draw(24)] = true
	}
	switches := 0
	sched.Pick = func(step, cur int, runnable []int, site string) int {
		if cur >= 0 && !changes[step] {
			return cur
		}
		for _, id := range runnable {
			if id != cur {
				return id
			}
		}
		return runnable[0]
	}
	sched.OnSwitch = func(step, from, to int, site string) { switches++ }
	tsm.OnOp = func(kind, path string) { sched.Yield("tsm:" + kind) }
	var outs [2]core.Outcome
	for i := range reqs {
		i, q := i, reqs[i]
		sched.Go(fmt.Sprintf("caller%d", i), func() {
			if q.eventLog {
				outs[i] = core.Call(func() error { return rtmr.ExtendEventLogClient(tsm, q.index, q.hash, q.log) })
			} else {
				outs[i] = core.Call(func() error { return rtmr.ExtendDigestClient(tsm, q.index, q.digest) })
			}
		})
	}
	sched.Run()
	tsm.OnOp = nil
	r.Eval()
	r.Probe("two_callers_interleaved_at_tsm_operations")
	r.Fault("sched:switch_between_callers_at_tsm_operation", switches > 1)
	r.Eventf("concurrent %s | %s switches=%d -> %s | %s", reqs[0], reqs[1], switches, errClass(outs[0]), errClass(outs[1]))
	r.State("concurrent log=%v/%v switches=%d", reqs[0].eventLog, reqs[1].eventLog, minInt(switches, 6))
	for i, q := range reqs {
		if outs[i].Panicked {
			r.Violate("C17:panic", "%s (one of two concurrent callers) panicked: %s", q, outs[i].PanicVal)
			return
		}
		if outs[i].Err != nil {
			r.Violate("C17:valid-request-failed:two-callers", "%s is valid, no fault was injected and the other caller (%s) works on another register, yet: %v", q, reqs[1-i], outs[i].Err)
			return
		}
	}
	for _, wr := range tsm.DigestWrites() {
		if wr.Err {
			continue
		}
		idx := tsm.EntryIndex(wr.Path)
		var want []byte
		switch idx {
		case ia:
			want = reqs[0].want()
		case ib:
			want = reqs[1].want()
		default:
			r.Violate("C17:wrong-register:two-callers", "with callers for registers %d and %d, a digest was written to the entry bound to index %d", ia, ib, idx)
			continue
		}
		if !bytes.Equal(wr.Data, want) {
			other := "neither caller's digest"
			if bytes.Equal(wr.Data, reqs[0].want()) || bytes.Equal(wr.Data, reqs[1].want()) {
				other = "the OTHER caller's digest"
			}
			r.Violate("C17:wrong-digest-written:two-callers", "register %d received %s (callers: %s | %s, %d switches)", idx, other, reqs[0], reqs[1], switches)
		}
	}
	for k := 0; k < 4; k++ {
		want := before[k]
		for i, idx := range []int{ia, ib} {
			if k == idx {
				cur := before[k]
				want = sha512.Sum384(append(append([]byte(nil), cur[:]...), reqs[i].want()...))
			}
		}
		if tsm.Reg[k] != want {
			r.Violate("C17:register-wrong-after-two-callers", "register %d is not %s after two concurrent callers on registers %d and %d", k, tern(k == ia || k == ib, "extended exactly once by its caller's digest", "unchanged"), ia, ib)
		}
		for i, idx := range []int{ia, ib} {
			if k == idx {
				cur := c17Model(model, before, k)
				model[k] = sha512.Sum384(append(append([]byte(nil), cur[:]...), reqs[i].want()...))
			}
		}
	}
}

func minInt(a, b int) int {
	if a < b {
		return a
	}
	return b
}

func c17Model(model, before map[int][48]byte, idx int) [48]byte {
	if m, ok := model[idx]; ok {
		return m
	}
	return before[idx]
}

func c17HasUnreadable(t *world.TSM, idx int) bool {
	for _, e := range t.Entries {
		if e.Index == idx && e.Unreadable {
			return true
		}
	}
	return false
}

func firstWrite(t *world.TSM) world.TSMOp {
	for _, o := range t.Ops {
		if o.Kind == "write" || o.Kind == "mkdir" || o.Kind == "remove" {
			return o
		}
	}
	return world.TSMOp{}
}

func c17Why(q c17Req) string {
	switch {
	case q.index < 0 || q.index > 3:
		return "index-out-of-range"
	case q.eventLog && q.hash != crypto.SHA384:
		return "hash-not-sha384"
	case q.eventLog:
		return "empty-log"
	default:
		return "digest-length"
	}
}

func idxBucket(i int) string {
	switch {
	case i < -1:
		return "min"
	case i == -1:
		return "-1"
	case i <= 3:
		return fmt.Sprint(i)
	case i <= 5:
		return "4-5"
	default:
		return "max"
	}
}

func init() {
	register(&core.Check{
		ID:    "C17",
		Level: "exploration",
		Rule: "per run a history of 1-12 extend requests (ExtendDigestClient / ExtendEventLogClient; index in {-2^31,-1,0..5,2^31-1} and values that are 0..3 only modulo 2^8 / 2^16 / 2^32, digest length {0,1,47,48,49,64}, hash {SHA-1,SHA-256,SHA-384,SHA-512,0}, log {nil,empty,1 B,1 MiB,random}) against a model TSM (configfsi.Client) that starts empty or with pre-existing entries (same index / other / unbound / unreadable index / all four) and implements register extension, showing an unbound entry's index as a read error / empty / -1 and a bound one with or without trailing newline (tape); every third run injects an I/O error at the k-th client call; every third run the TSM's operations take simulated time (1 ms .. 31 s per operation, fake-clock bubble; the registers are examined an hour after the request returned). " +
			"distinct = (call kind, index bucket, validity, fault fired, outcome)",
		Assumptions: []string{"the model TSM refuses a second entry for an index (EBUSY), as configfs-tsm does", "linuxtsm.MakeClient (real configfs) is the far side of the seam and is not exercised"},
		RealStub:    map[string]string{"rtmr.ExtendDigestClient / ExtendEventLogClient": "real", "go-configfs-tsm rtmr.ExtendDigest": "real", "configfs-tsm": "stub (world.TSM model)"},
		Runs: func(tier string) int {
			if tier == "thorough" {
				return 200000
			}
			return 3000
		},
		Run:       c17Run,
		MustProbe: []string{"invalid_request", "entry_created", "entry_reused", "io_fault_fired", "persistent_io_fault", "preexisting_entry_same_index", "preexisting_entry_unreadable_index", "preexisting_unbound_entry", "slow_tsm"},
	})
}
