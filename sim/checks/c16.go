package checks

import (
	"fmt"
	"os"
	"reflect"
	"strings"
	"sync"
	"sync/atomic"
	"unsafe"

	"github.com/google/go-tdx-guest/abi"
	pb "github.com/google/go-tdx-guest/proto/tdx"
	"github.com/google/go-tdx-guest/rtmr"
	"github.com/google/go-tdx-guest/validate"
	"github.com/google/go-tdx-guest/verify"
	"google.golang.org/protobuf/proto"
	"verif/sim/core"
	"verif/sim/world"
)

// C16 — parsing copies, checking never writes.
//
// The code under test is an instrumented scratch copy of /repo with a yield point
// before every statement (sim/cmd/instrument).  K tasks share one quote message, the raw
// input buffer and option byte strings; the seeded scheduler switches between them at
// tape-chosen yield points and at every Getter park.  At every context switch the bytes
// reachable from the shared values — up to capacity — must be unchanged.

var c16Stalls atomic.Int64

// c16SetHook installs the yield hook of the instrumented copy (nil in a plain build).
var c16SetHook func(func(site string))

// region of memory under the no-write invariant
type c16Mem struct {
	name string
	b    []byte // full-capacity view
	ln   int    // length of the field (bytes beyond ln are spare capacity)
	snap []byte
}

type c16Guard struct {
	mems   []*c16Mem
	msg    *pb.QuoteV4
	shape  string // scalar fields and slice headers of the message
	shape0 string
	lists  []*c16List
}

// c16List is a caller-owned list of byte strings (an option such as AnyMrTd): which element sits where
// is the caller's too.
type c16List struct {
	name string
	l    [][]byte
	ptrs []*byte
	lens []int
}

func (g *c16Guard) addList(name string, l [][]byte) {
	x := &c16List{name: name, l: l}
	for _, e := range l {
		var p *byte
		if len(e) > 0 {
			p = &e[0]
		}
		x.ptrs, x.lens = append(x.ptrs, p), append(x.lens, len(e))
	}
	g.lists = append(g.lists, x)
}

func fullCap(b []byte) []byte { return b[:cap(b)] }

func (g *c16Guard) add(name string, b []byte) {
	if cap(b) == 0 {
		return
	}
	m := &c16Mem{name: name, b: fullCap(b), ln: len(b)}
	m.snap = append([]byte(nil), m.b...)
	g.mems = append(g.mems, m)
}

// The generated message structs are walked with Go reflection (exported fields only):
// protoreflect's Value.Bytes() drops the capacity of a bytes field, and the spare
// capacity is exactly what must be watched.

// msgShape renders every scalar and every slice header (address, len, cap) of the message.
func msgShape(v reflect.Value, sb *strings.Builder) {
	if v.Kind() == reflect.Ptr {
		if v.IsNil() {
			sb.WriteString("nil;")
			return
		}
		v = v.Elem()
	}
	t := v.Type()
	for i := 0; i < t.NumField(); i++ {
		f := t.Field(i)
		if !f.IsExported() {
			continue
		}
		fv := v.Field(i)
		switch {
		case fv.Kind() == reflect.Slice && fv.Type().Elem().Kind() == reflect.Uint8:
			fmt.Fprintf(sb, "%s:%x/%d/%d;", f.Name, fv.Pointer(), fv.Len(), fv.Cap())
		case fv.Kind() == reflect.Slice && fv.Type().Elem().Kind() == reflect.Slice:
			fmt.Fprintf(sb, "%s:list%x/%d/%d[", f.Name, fv.Pointer(), fv.Len(), fv.Cap())
			for j := 0; j < fv.Len(); j++ {
				e := fv.Index(j)
				fmt.Fprintf(sb, "%x/%d/%d,", e.Pointer(), e.Len(), e.Cap())
			}
			sb.WriteString("];")
		case fv.Kind() == reflect.Ptr && fv.Type().Elem().Kind() == reflect.Struct:
			fmt.Fprintf(sb, "%s:%x{", f.Name, fv.Pointer())
			msgShape(fv, sb)
			sb.WriteString("};")
		default:
			fmt.Fprintf(sb, "%s:%v;", f.Name, fv.Interface())
		}
	}
}

func (g *c16Guard) addMessage(v reflect.Value, path string) {
	if v.Kind() == reflect.Ptr {
		if v.IsNil() {
			return
		}
		v = v.Elem()
	}
	t := v.Type()
	for i := 0; i < t.NumField(); i++ {
		f := t.Field(i)
		if !f.IsExported() {
			continue
		}
		fv := v.Field(i)
		name := path + "." + f.Name
		switch {
		case fv.Kind() == reflect.Slice && fv.Type().Elem().Kind() == reflect.Uint8:
			g.add(name, fv.Bytes())
		case fv.Kind() == reflect.Slice && fv.Type().Elem().Kind() == reflect.Slice:
			for j := 0; j < fv.Len(); j++ {
				g.add(fmt.Sprintf("%s[%d]", name, j), fv.Index(j).Bytes())
			}
		case fv.Kind() == reflect.Ptr && fv.Type().Elem().Kind() == reflect.Struct:
			g.addMessage(fv, name)
		}
	}
}

func newGuard(msg *pb.QuoteV4) *c16Guard {
	g := &c16Guard{msg: msg}
	g.addMessage(reflect.ValueOf(msg), "msg")
	var sb strings.Builder
	msgShape(reflect.ValueOf(msg), &sb)
	g.shape0 = sb.String()
	return g
}

// changed returns a description of the first region that differs from its snapshot.
func (g *c16Guard) changed() (what, where string, ok bool) {
	for _, m := range g.mems {
		for i := range m.b {
			if m.b[i] != m.snap[i] {
				kind := "bytes"
				if i >= m.ln {
					kind = "spare-capacity"
				}
				base := "message"
				if strings.HasPrefix(m.name, "raw") {
					base = "raw-input"
				} else if strings.HasPrefix(m.name, "opt") {
					base = "option"
				}
				return base + "-" + kind, fmt.Sprintf("%s byte %d (len %d, cap %d)", m.name, i, m.ln, len(m.b)), true
			}
		}
	}
	for _, x := range g.lists {
		for i, e := range x.l {
			var p *byte
			if len(e) > 0 {
				p = &e[0]
			}
			if p != x.ptrs[i] || len(e) != x.lens[i] {
				return "option-list-order", fmt.Sprintf("%s[%d] is no longer the element the caller put there", x.name, i), true
			}
		}
	}
	if g.msg != nil {
		var sb strings.Builder
		msgShape(reflect.ValueOf(g.msg), &sb)
		if sb.String() != g.shape0 {
			return "message-structure", "a scalar field or slice header of the message changed", true
		}
	}
	return "", "", false
}

func (g *c16Guard) restore() {
	for _, m := range g.mems {
		copy(m.b, m.snap)
	}
	for _, x := range g.lists {
		for i := range x.l {
			if x.ptrs[i] != nil {
				x.l[i] = unsafe.Slice(x.ptrs[i], x.lens[i])
			} else {
				x.l[i] = nil
			}
		}
	}
}

func poisoned(b []byte, spare int) []byte {
	buf := make([]byte, len(b), len(b)+spare)
	copy(buf, b)
	sp := buf[len(b):cap(buf)]
	for i := range sp {
		sp[i] = 0xA5
	}
	return buf
}

type c16Op struct {
	name string
	run  func() error
}

func funcOfSite(site string) string {
	site = strings.TrimPrefix(site, "!")
	if i := strings.LastIndexByte(site, ' '); i >= 0 {
		pkg := site
		if j := strings.IndexByte(site, '/'); j >= 0 {
			pkg = site[:j]
		}
		return pkg + "." + site[i+1:]
	}
	return site
}

func c16Run(r *core.Run) {
	if c16Stalls.Load() > 0 {
		// an earlier schedule of this process ended with a task blocked outside a yield point, i.e. the code under
		// test makes callers wait for one another; the goroutines left behind may hold whatever the others wait
		// for, so nothing further can be run in this process (counted; the batch ends early, never a verdict)
		core.GlobalCount("runs_skipped_after_a_stalled_schedule", 1)
		return
	}
	raceMode := os.Getenv("VERIF_RACE") != ""
	if c16SetHook == nil && !raceMode {
		panic("C16 must be built against the instrumented copy (tag c16instr); bin/vcheck does that")
	}
	t := r.T
	w := world.NewWorld(t, world.Cfg{Processor: 1, AuthLen: []int{0, -1, 5, 200}[t.Draw(4)], ExtraBytes: t.Draw(2) * 11})
	if t.Chance(1, 4) {
		// a TDX module version for which the served TCB Info lists no identity (a stale or differently shaped
		// answer): the evaluation takes its not-found paths, which read the quote's TEE_TCB_SVN like any other
		w.Quote.TeeTcbSvn[1] = byte(1 + t.Draw(3))
		w.Quote.TeeTcbSvn[2] = byte(1 + t.Draw(250))
		if t.Bool() {
			w.Tcb.Modules = nil
		} else {
			for i := range w.Tcb.Modules {
				w.Tcb.Modules[i].ID = fmt.Sprintf("TDX_%02d", 40+i)
			}
		}
		w.Build(false)
		w.Publish()
		r.Probe("module_version_without_identity_in_tcb_info")
	}
	rawHonest := w.Quote.Bytes()
	raw := poisoned(rawHonest, 64)
	form := t.Draw(4)
	var msg *pb.QuoteV4
	switch form {
	case 0: // parsed from bytes by the code under test
		m, err := parseMsg(rawHonest)
		if err != nil {
			panic("c16: honest quote does not parse: " + err.Error())
		}
		msg = m
	case 1: // built field by field, poisoned spare capacity behind every bytes field
		msg = w.Quote.Proto(16 + t.Draw(64))
	case 3: // built field by field with the redundant size fields (signed data size, certification data size) unset
		msg = w.Quote.Proto(8)
		msg.SignedDataSize = 0
		msg.SignedData.CertificationData.Size = 0
		r.Probe("message_with_unset_size_fields")
	default: // decoded from protobuf wire form
		b, err := proto.Marshal(w.Quote.Proto(0))
		if err != nil {
			panic(err)
		}
		msg = &pb.QuoteV4{}
		if err := proto.Unmarshal(b, msg); err != nil {
			panic(err)
		}
	}
	// shared option byte strings (each task has its own options value pointing at them)
	q := w.Quote
	optBytes := map[string][]byte{
		"opt.MrSeam": poisoned(q.MrSeam[:], 8), "opt.ReportData": poisoned(q.ReportData[:], 8), "opt.MinTee": poisoned(make([]byte, 16), 8),
		"opt.QeVendorID": poisoned(q.QEVendor[:], 8), "opt.Rtmr0": poisoned(q.Rtmr[0][:], 8), "opt.Rtmr1": poisoned(q.Rtmr[1][:], 8),
		"opt.Rtmr2": poisoned(q.Rtmr[2][:], 8), "opt.Rtmr3": poisoned(q.Rtmr[3][:], 8), "opt.MrTd": poisoned(q.MrTd[:], 8), "opt.Xfam": poisoned(q.Xfam[:], 8),
	}
	// in a quarter of the runs some expectations are shorter than the field they speak of (sub-slices of a larger
	// caller buffer: spare capacity right behind them).  Whatever the validator makes of such an option —
	// today it refuses it — the bytes behind it are not its to write.
	if t.Chance(1, 4) {
		optBytes["opt.ReportData"] = poisoned(q.ReportData[:8+t.Draw(56)], 64)
		if t.Bool() {
			optBytes["opt.Xfam"] = poisoned(q.Xfam[:1+t.Draw(7)], 16)
		}
		if t.Bool() {
			optBytes["opt.MrSeam"] = poisoned(q.MrSeam[:1+t.Draw(47)], 48)
		}
		r.Probe("option_shorter_than_its_field")
	}
	// the allow-list and the RTMR list are the callers' too (one list shared by all tasks' options values): the
	// quote's MR_TD sits between a larger and a smaller decoy, i.e. the list is in no particular order
	optBytes["opt.AnyMrTd.hi"], optBytes["opt.AnyMrTd.lo"] = poisoned(bytesOf(0xfe, 48), 8), poisoned(bytesOf(0x01, 48), 8)
	sharedAny := [][]byte{optBytes["opt.AnyMrTd.hi"], optBytes["opt.MrTd"], optBytes["opt.AnyMrTd.lo"]}
	if t.Bool() {
		sharedAny = [][]byte{optBytes["opt.MrTd"], optBytes["opt.AnyMrTd.hi"], optBytes["opt.AnyMrTd.lo"]}
	}
	sharedRtmrs := [][]byte{optBytes["opt.Rtmr0"], optBytes["opt.Rtmr1"], optBytes["opt.Rtmr2"], optBytes["opt.Rtmr3"]}
	mkVopts := func() *validate.Options {
		return &validate.Options{HeaderOptions: validate.HeaderOptions{QeVendorID: optBytes["opt.QeVendorID"]},
			TdQuoteBodyOptions: validate.TdQuoteBodyOptions{MrSeam: optBytes["opt.MrSeam"], ReportData: optBytes["opt.ReportData"], MinimumTeeTcbSvn: optBytes["opt.MinTee"], Xfam: optBytes["opt.Xfam"],
				Rtmrs: sharedRtmrs, AnyMrTd: sharedAny}}
	}
	g := newGuard(msg)
	g.addList("opt.AnyMrTd", sharedAny)
	g.addList("opt.Rtmrs", sharedRtmrs)
	g.add("raw", raw)
	for _, k := range core.SortedKeys(optBytes) {
		g.add(k, optBytes[k])
	}
	r.Eventf("world %s form=%d regions=%d", w.Describe(), form, len(g.mems))

	// --- parsing copies: the parsed message shares no memory with its input (deterministic, single call)
	if form == 0 && r.Item("aliasing") {
		buf := append([]byte(nil), rawHonest...)
		m2, err := parseMsg(buf)
		if err == nil {
			g2 := newGuard(m2)
			for i := range buf {
				buf[i] ^= 0xff
			}
			if what, where, bad := g2.changed(); bad {
				r.Violate("C16:aliasing:message-shares-input", "after abi.QuoteToProto, overwriting the input buffer changed the message: %s %s", what, where)
			}
			save := append([]byte(nil), buf...)
			for _, m := range g2.mems {
				for i := range m.b {
					m.b[i] ^= 0xff
				}
			}
			if string(save) != string(buf) {
				r.Violate("C16:aliasing:input-shares-message", "after abi.QuoteToProto, overwriting the message's byte fields changed the input buffer")
			}
			r.Probe("aliasing_checked")
		}
		r.Eval()
		r.EndItem()
	}

	// --- the tasks
	K := 2 + t.Draw(2)
	type taskT struct {
		ops     []c16Op
		solo    []string
		sched   []string
		pcsView *world.PCS
	}
	tasks := make([]*taskT, K)
	var sched *core.Sched
	for k := 0; k < K; k++ {
		tk := &taskT{}
		tk.pcsView = &world.PCS{Tcb: w.PCS.Tcb, QE: w.PCS.QE, PckCrl: w.PCS.PckCrl, ByURL: w.PCS.ByURL}
		tk.pcsView.OnFetch = func(rq world.Request) {
			if sched != nil {
				sched.Yield("getter:" + rq.Route)
			}
		}
		nops := 1 + t.Draw(3)
		for i := 0; i < nops; i++ {
			kind := t.Draw(10)
			pv := tk.pcsView
			switch kind {
			case 0, 1:
				tk.ops = append(tk.ops, c16Op{"verify.TdxQuote(base)", func() error { return verify.TdxQuote(msg, mkOpts(O0, pv, w.Pool, w.Times)) }})
			case 2:
				lvl := O1 + t.Draw(2)
				tk.ops = append(tk.ops, c16Op{"verify.TdxQuote(" + optNames[lvl] + ")", func() error { return verify.TdxQuote(msg, mkOpts(lvl, pv, w.Pool, w.Times)) }})
			case 3:
				tk.ops = append(tk.ops, c16Op{"validate.TdxQuote", func() error { return validate.TdxQuote(msg, mkVopts()) }})
			case 4:
				tk.ops = append(tk.ops, c16Op{"abi.QuoteToAbiBytes", func() error { _, err := abi.QuoteToAbiBytes(msg); return err }})
			case 5:
				tk.ops = append(tk.ops, c16Op{"verify.ExtractChainFromQuote", func() error { _, err := verify.ExtractChainFromQuote(msg); return err }})
			case 6:
				tk.ops = append(tk.ops, c16Op{"rtmr.GetRtmrsFromTdQuote", func() error { _, err := rtmr.GetRtmrsFromTdQuote(msg); return err }})
			case 7:
				tk.ops = append(tk.ops, c16Op{"abi.QuoteToProto(shared raw)", func() error { _, err := abi.QuoteToProto(raw); return err }})
			case 8:
				tk.ops = append(tk.ops, c16Op{"verify.RawTdxQuote(shared raw)", func() error { return verify.RawTdxQuote(raw, mkOpts(O0, pv, w.Pool, w.Times)) }})
			case 9:
				tk.ops = append(tk.ops, c16Op{"validate.RawTdxQuote(shared raw)", func() error { return validate.RawTdxQuote(raw, mkVopts()) }})
			}
		}
		tasks[k] = tk
	}

	if raceMode {
		// Supplementary run (plain build with -race, no scheduler, no yield points): the same tasks on truly
		// parallel goroutines.  Baton passing would hide races from the detector; here nothing synchronises
		// the tasks except a start barrier.  The race detector's report is the oracle (bin/vcheck reads it);
		// verdicts are compared with the solo verdicts as well.
		for _, tk := range tasks {
			for _, op := range tk.ops {
				tk.solo = append(tk.solo, errClass(core.Call(op.run)))
			}
		}
		for rep := 0; rep < 3; rep++ {
			start := make(chan struct{})
			var wg sync.WaitGroup
			for _, tk := range tasks {
				tk := tk
				tk.sched = nil
				wg.Add(1)
				go func() {
					defer wg.Done()
					<-start
					for _, op := range tk.ops {
						tk.sched = append(tk.sched, errClass(core.Call(op.run)))
					}
				}()
			}
			close(start)
			wg.Wait()
			for k, tk := range tasks {
				for i := range tk.ops {
					r.Eval()
					if tk.sched[i] != tk.solo[i] {
						r.Violate("C16:verdict-differs-when-run-in-parallel", "task %d call %s: alone %q, in parallel with the other tasks %q", k, tk.ops[i].name, tk.solo[i], tk.sched[i])
					}
				}
			}
		}
		r.Probe("parallel_run_under_race_detector")
		r.State("race form=%d tasks=%d", form, K)
		return
	}
	// --- solo pass: verdicts when run alone, yield count, and the single-call before/after snapshot
	yields := 0
	lastSite, prevSite := "", ""
	siteSteps := map[string][]int{} // static site -> the dynamic yield indices at which it executed
	// the hooks take a lock: a goroutine started by the code under test may run through yield points too
	var hookMu sync.Mutex
	counting := func(site string) {
		hookMu.Lock()
		defer hookMu.Unlock()
		yields++
		prevSite, lastSite = lastSite, site
		if l := siteSteps[site]; len(l) < 64 {
			siteSteps[site] = append(l, yields)
		}
	}
	_ = prevSite
	c16SetHook(counting)
	for k, tk := range tasks {
		for _, op := range tk.ops {
			o := core.Call(op.run)
			tk.solo = append(tk.solo, errClass(o))
			r.Eval()
			if what, where, bad := g.changed(); bad {
				site := c16Pinpoint(g, op)
				r.Violate("C16:write:"+what+":"+funcOfSite(site), "single call %s (task %d, alone) wrote to %s: %s; first observed after the statement at %s", op.name, k, what, where, site)
				g.restore()
				c16SetHook(counting)
			}
		}
	}
	c16SetHook(nil)
	total := yields
	r.Eventf("solo pass: %d yield points executed", total)
	if total == 0 {
		panic("C16: instrumented build executed no yield point")
	}

	// --- scheduled pass: PCT-style, d <= 3 change points + every Getter park
	d := 1 + t.Draw(3)
	changes := map[int]bool{}
	// half of the change points are uniform over the executed yields, half uniform over the
	// distinct static sites (then over that site's occurrences): statements that run once are
	// otherwise drowned by the loops that run thousands of times
	sites := core.SortedKeys(siteSteps)
	var hot []string // sites inside functions that touch package-level variables (marked by the instrumenter)
	for _, s := range sites {
		if strings.HasPrefix(s, "!") {
			hot = append(hot, s)
		}
	}
	for i := 0; i < d; i++ {
		if len(hot) > 0 && t.Draw(3) == 0 {
			// first a function (uniformly), then one of its executed sites, then one occurrence
			byFunc := map[string][]string{}
			for _, s := range hot {
				byFunc[funcOfSite(s)] = append(byFunc[funcOfSite(s)], s)
			}
			fns := core.SortedKeys(byFunc)
			fs := byFunc[fns[t.Draw(len(fns))]]
			occ := siteSteps[fs[t.Draw(len(fs))]]
			changes[occ[t.Draw(len(occ))]] = true
			r.Probe("change_point_in_function_touching_package_state")
			continue
		}
		if t.Bool() && len(sites) > 0 {
			occ := siteSteps[sites[t.Draw(len(sites))]]
			changes[occ[t.Draw(len(occ))]] = true
			r.Probe("change_point_chosen_by_static_site")
		} else {
			changes[1+t.Draw(total)] = true
		}
	}
	sched = core.NewSched()
	step := 0
	var switchLog []string
	violated := len(r.Viol) > 0 // a write already attributed in the solo pass is not reported again per switch
	sched.Pick = func(_ int, cur int, runnable []int, site string) int {
		if cur < 0 || len(runnable) == 1 {
			return runnable[t.Draw(len(runnable))]
		}
		if strings.HasPrefix(site, "getter:") && t.Bool() {
			return cur // stay after a Getter park
		}
		var others []int
		for _, id := range runnable {
			if id != cur {
				others = append(others, id)
			}
		}
		return others[t.Draw(len(others))]
	}
	sched.OnSwitch = func(_ int, from, to int, site string) {
		if len(switchLog) < 12 {
			switchLog = append(switchLog, fmt.Sprintf("%d->%d@%s", from, to, funcOfSite(site)))
		}
		r.Eventf("switch %d->%d at %s (yield %d)", from, to, site, step)
		if what, where, bad := g.changed(); bad && !violated {
			violated = true
			r.Violate("C16:write:"+what+":under-interleaving", "at the context switch %d->%d (yield %d, %s) %s had been written: %s", from, to, step, site, what, where)
		}
	}
	c16SetHook(func(site string) {
		hookMu.Lock()
		step++
		lastSite = site
		hit := changes[step]
		hookMu.Unlock()
		if hit {
			r.Probe("switch_at_instrumented_yield")
			if strings.Contains(site, "verifyHash256") {
				r.Probe("switch_inside_verifyHash256")
			}
			sched.Yield(site)
		}
	})
	for k, tk := range tasks {
		k, tk := k, tk
		sched.Go(fmt.Sprintf("task%d", k), func() {
			for _, op := range tk.ops {
				o := core.Call(op.run)
				tk.sched = append(tk.sched, errClass(o))
				sched.Yield("between-calls")
			}
		})
	}
	sched.Run()
	if sched.Foreign > 0 {
		// goroutines started by the code under test ran through yield points outside the scheduler's control
		r.Count("yield_points_reached_by_foreign_goroutines(schedule_not_exactly_replayable)", int64(sched.Foreign))
	}
	c16SetHook(nil)
	if sched.Stalled {
		c16Stalls.Add(1)
		// a task blocked on something only a parked task could release (the code under test waits for another
		// caller's progress): nothing can be said about this schedule
		core.GlobalCount("schedules_given_up_because_a_task_blocked_outside_a_yield_point", 1)
		sched = nil
		return
	}
	sched = nil
	r.Fault("sched:preemption_at_yield_point", len(switchLog) > K)
	for k, tk := range tasks {
		for i := range tk.ops {
			r.Eval()
			if i >= len(tk.sched) {
				continue
			}
			r.Eventf("task %d op %s solo=%s scheduled=%s", k, tk.ops[i].name, tk.solo[i], tk.sched[i])
			if i < len(tk.sched) && tk.solo[i] != tk.sched[i] {
				r.Violate("C16:verdict-differs-under-interleaving", "task %d, %s: alone -> %s, interleaved -> %s (switches: %v)", k, tk.ops[i].name, tk.solo[i], tk.sched[i], switchLog)
			}
		}
	}
	if what, where, bad := g.changed(); bad && !violated {
		r.Violate("C16:write:"+what+":end", "after all tasks finished %s differs from its snapshot: %s", what, where)
	}
	g.restore()
	r.SimTime += 0
	r.State("form=%d K=%d d=%d switches=%s", form, K, d, strings.Join(switchLog, ","))
	r.Sample("%d tasks sharing one quote (form %d: 0 parsed / 1 field-built with poisoned spare capacity / 2 protobuf-decoded), the raw buffer and option byte strings; ops %s; %d yield points, switches %v", K, form, c16OpNames(tasks[0].ops), total, switchLog)
}

func prevSiteOr(site, last string) string {
	if last != "" {
		return last
	}
	return site
}

func c16OpNames(ops []c16Op) []string {
	var n []string
	for _, o := range ops {
		n = append(n, o.name)
	}
	return n
}

// c16Pinpoint re-executes one operation checking the invariant at EVERY yield point and
// returns the site of the statement after which the write was first observed.
func c16Pinpoint(g *c16Guard, op c16Op) string {
	g.restore()
	found := ""
	prev := "entry"
	c16SetHook(func(site string) {
		if found == "" {
			if _, _, bad := g.changed(); bad {
				found = prev
			}
		}
		prev = site
	})
	core.Call(op.run)
	if found == "" {
		if _, _, bad := g.changed(); bad {
			found = prev
		}
	}
	// restore the counting hook of the solo pass is the caller's business
	c16SetHook(nil)
	if found == "" {
		return "unknown"
	}
	return found
}

func init() {
	register(&core.Check{
		ID:    "C16",
		Level: "exploration",
		Rule: "per run: 2-3 tasks share one quote message (parsed from bytes / built field by field with 0xA5-poisoned spare capacity behind every bytes field / protobuf-decoded), the raw input buffer (poisoned spare capacity) and 12 option byte strings in two caller-owned lists (AnyMrTd in no particular order, Rtmrs); each task runs 1-3 tape-chosen calls of verify.TdxQuote (base / collateral / revocation), validate.TdxQuote, abi.QuoteToAbiBytes, verify.ExtractChainFromQuote, rtmr.GetRtmrsFromTdQuote, abi.QuoteToProto / verify.RawTdxQuote / validate.RawTdxQuote on the shared buffer. The code under test is an AST-instrumented scratch copy of /repo with a yield point before every statement of abi, verify, validate, pcs, rtmr (about 1450 sites). Solo pass: each call alone with a before/after snapshot of every region up to capacity (a failing call is re-run with the check at every yield to name the writing statement). Scheduled pass: the seeded scheduler preempts at d<=3 tape-chosen yield indices (PCT style) and at every Getter park; at every context switch and at the end all regions and the message's scalars / slice headers must be unchanged, and every verdict must equal its solo verdict. Plus the aliasing check input<->message around abi.QuoteToProto. " +
			"distinct = (form, K, d, switch sequence as (from,to,function))",
		Assumptions: []string{
			"no call synchronises on the quote, so any write to memory reachable from it races with any concurrent reader; with no writes there is nothing to race on in that memory. Package-level state is covered by verdict equality under interleaving",
			"the race detector is not the oracle: baton passing creates happens-before edges that would hide races",
			"yield points are at statement granularity; a write and its undo inside one statement would not be seen",
		},
		RealStub: map[string]string{"abi / verify / validate / pcs / rtmr": "real code, AST-instrumented scratch copy (yield before every statement)", "scheduler": "simulator (one task runs at a time, choice from the tape)", "PCS": "stub; Getter is a park point"},
		Runs: func(tier string) int {
			if tier == "thorough" {
				return 40000
			}
			return 1500
		},
		Run:       c16Run,
		Serial:    true, // the yield hook of the instrumented copy is process-global
		MustProbe: []string{"switch_at_instrumented_yield", "switch_inside_verifyHash256", "aliasing_checked", "message_with_unset_size_fields"},
	})
}
