//go:build c16instr

package checks

import "github.com/google/go-tdx-guest/simyield"

func init() {
	c16SetHook = func(f func(site string)) { simyield.Hook = f }
}
