// Package checks holds one simulation (workload + oracle) per claimed property.
package checks

import (
	"testing"

	"verif/sim/core"
)

// Registry maps property ids to checks.
var Registry = map[string]*core.Check{}

func register(c *core.Check) { Registry[c.ID] = c }

// SelfTest is replaced in selftest.go.
var SelfTest = func(t *testing.T) int { return core.ExitOK }
