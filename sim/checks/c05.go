package checks

import (
	"encoding/pem"
	"fmt"
	ccpb "github.com/google/go-tdx-guest/proto/checkconfig"
	"github.com/google/go-tdx-guest/verify"
	"math/big"

	"verif/sim/core"
	"verif/sim/world"
)

// C05 — revoked or unverifiable certificates are never accepted when revocation is on.

type c05Case struct {
	name   string
	expect world.Expectation
	why    string
	setup  func() // edits specs / endpoints of the world (after a reset)
}

func c05Run(r *core.Run) {
	t := r.T
	w := world.NewWorld(t, world.Cfg{Processor: 1, AuthLen: 0})
	// TCB Info and QE Identity are signed by two different TCB-signing certificates so
	// that the revocation of each can be told apart.
	signer2 := w.A.SecondTcbSigner(t)
	w.TcbSignerInQE = signer2
	w.Publish()
	fk := world.NewKey(t)
	origPck, origRoot := w.PckCrl, w.RootCrl
	origRootInQE := w.RootInQE
	origTcbSigner, origQESigner, origRootInTcb, origPool := w.TcbSignerInTcb, w.TcbSignerInQE, w.RootInTcb, w.Pool
	raw := w.Quote.Bytes()
	r.Eventf("world %s", w.Describe())

	// In half of the runs every revocation entry is dated AFTER the verifier's clock (a CRL issued
	// later than a pinned or lagging clock): a listed serial is listed whatever its date.
	futureDated := t.Bool()
	reset := func() {
		w.PckCrl, w.RootCrl, w.RootInQE = origPck, origRoot, origRootInQE
		w.TcbSignerInTcb, w.TcbSignerInQE, w.RootInTcb, w.Pool = origTcbSigner, origQESigner, origRootInTcb, origPool
		if futureDated {
			w.PckCrl.RevokedAt, w.RootCrl.RevokedAt = w.Epoch.AddDate(0, 0, 18), w.Epoch.AddDate(0, 0, 19)
		}
		w.PckCrl.Revoked = append([]*big.Int(nil), origPck.Revoked...)
		w.RootCrl.Revoked = append([]*big.Int(nil), origRoot.Revoked...)
		w.Publish()
	}
	leaf, inter := w.LeafSerial(), w.InterSerial()
	sTcb, sQE := w.A.Tcb.X.SerialNumber, signer2.X.SerialNumber
	pckEP := func() *world.Endpoint { return w.PCS.PckCrl[w.CAID] }
	rootURL := world.RootCRLURL

	var cases []c05Case
	add := func(name string, e world.Expectation, why string, setup func()) {
		cases = append(cases, c05Case{name, e, why, setup})
	}
	rej := world.MustReject
	// --- revoked serial sets
	add("revoked:leaf-in-pckcrl", rej, "the leaf's serial is listed in the PCK CRL", func() { w.PckCrl.Revoked = append(w.PckCrl.Revoked, leaf); w.Publish() })
	add("revoked:intermediate-in-rootcrl", rej, "the intermediate CA's serial is listed in the Root CA CRL", func() { w.RootCrl.Revoked = append(w.RootCrl.Revoked, inter); w.Publish() })
	add("revoked:tcbinfo-signer-in-rootcrl", rej, "the TCB-Info signing certificate's serial is listed in the Root CA CRL", func() { w.RootCrl.Revoked = append(w.RootCrl.Revoked, sTcb); w.Publish() })
	add("revoked:qeidentity-signer-in-rootcrl", rej, "the QE-Identity signing certificate's serial is listed in the Root CA CRL", func() { w.RootCrl.Revoked = append(w.RootCrl.Revoked, sQE); w.Publish() })
	for _, pos := range []string{"first", "middle", "last", "last-but-one", "last-but-two"} {
		pos := pos
		mk := func(target *big.Int) []*big.Int {
			// list lengths around the sizes at which an implementation might change strategy
			n := []int{3, 17, 200, 255, 1000, 1023, 1024, 1025, 1026, 2049, 4098}[t.Draw(11)]
			l := make([]*big.Int, 0, n+1)
			for i := 0; i < n; i++ {
				l = append(l, world.RandSerial(t))
			}
			at := map[string]int{"first": 0, "middle": n / 2, "last": n, "last-but-one": n - 1, "last-but-two": n - 2}[pos]
			l = append(l[:at], append([]*big.Int{target}, l[at:]...)...)
			return l
		}
		add("revoked:leaf-"+pos+"-of-many", rej, "the leaf's serial is listed ("+pos+" of many entries)", func() { w.PckCrl.Revoked = mk(leaf); w.Publish() })
		add("revoked:intermediate-"+pos+"-of-many", rej, "the intermediate's serial is listed ("+pos+" of many entries)", func() { w.RootCrl.Revoked = mk(inter); w.Publish() })
	}
	// near misses and the other CRL: never a reason to accept more, never required to reject
	near0 := func(s *big.Int, k int) *big.Int { return nil }
	near := func(s *big.Int, k int) *big.Int {
		n := near0(s, k)
		// a near miss is a serial that NO certificate of this world carries (a palindromic serial is its own
		// mirror image; short serials may coincide): otherwise take neighbours until that holds
		for clash := true; clash; {
			clash = false
			for _, x := range []*big.Int{leaf, inter, sTcb, sQE, w.A.Root.X.SerialNumber} {
				if n.Cmp(x) == 0 {
					n = new(big.Int).Add(n, big.NewInt(2))
					clash = true
				}
			}
		}
		return n
	}
	near0 = func(s *big.Int, k int) *big.Int {
		b := s.Bytes()
		switch k {
		case 0:
			return new(big.Int).Add(s, big.NewInt(1))
		case 1:
			return new(big.Int).Sub(s, big.NewInt(1))
		case 2: // byte-reversed
			rv := make([]byte, len(b))
			for i := range b {
				rv[len(b)-1-i] = b[i]
			}
			rv[0] &= 0x7f
			return new(big.Int).SetBytes(rv)
		case 3: // same low 64 bits
			c := append([]byte(nil), b...)
			c[0] ^= 0x20
			return new(big.Int).SetBytes(c)
		default: // same high bytes, differs in the last
			c := append([]byte(nil), b...)
			c[len(c)-1] ^= 0x80
			return new(big.Int).SetBytes(c)
		}
	}
	for k := 0; k < 5; k++ {
		k := k
		add(fmt.Sprintf("near-miss:leaf-%d", k), world.MustAccept, "only a near-miss of the leaf's serial is listed", func() { w.PckCrl.Revoked = append(w.PckCrl.Revoked, near(leaf, k)); w.Publish() })
		add(fmt.Sprintf("near-miss:intermediate-%d", k), world.MustAccept, "only a near-miss of the intermediate's serial is listed", func() { w.RootCrl.Revoked = append(w.RootCrl.Revoked, near(inter, k)); w.Publish() })
	}
	add("other-crl:leaf-serial-in-rootcrl", world.MustAccept, "a certificate of another issuer happens to have the leaf's serial number and is listed in the Root CA CRL; serial numbers are per issuer, the leaf is not revoked", func() { w.RootCrl.Revoked = append(w.RootCrl.Revoked, leaf); w.Publish() })
	add("other-crl:intermediate-serial-in-pckcrl", world.MustAccept, "a certificate issued by the intermediate happens to have the intermediate's own serial number and is listed in the PCK CRL; the intermediate is not revoked", func() { w.PckCrl.Revoked = append(w.PckCrl.Revoked, inter); w.Publish() })
	add("other-crl:signer-serial-in-pckcrl", world.MustAccept, "the TCB signer's serial number appears in the PCK CRL (another issuer's serial space)", func() { w.PckCrl.Revoked = append(w.PckCrl.Revoked, sTcb, sQE); w.Publish() })
	// --- CRL signers
	add("signer:pckcrl-by-foreign-key", rej, "the PCK CRL is not signed by the intermediate CA", func() { pckEP().Body = world.MakeCRL(w.PckCrl, w.CA, fk) })
	add("signer:pckcrl-by-foreign-key,lookalike-issuer-in-header", rej, "the PCK CRL is signed by a foreign key; the look-alike CA certificate in the (unauthenticated) response header does not make it the chain's intermediate CA", func() {
		look := world.Issue(w.A.PlatSpec, fk, w.A.Root, fk) // named like the Platform CA, holds the foreign key
		pckEP().Body = world.MakeCRL(w.PckCrl, w.CA, fk)
		pckEP().Hdr = map[string][]string{world.HdrPckCrl: {world.IssuerChainHeader(look, w.A.Root)}}
	})
	add("signer:pckcrl-by-foreign-key,lookalike-chain-in-header", rej, "the PCK CRL is signed by a foreign key certified only by a look-alike root carried in the response header", func() {
		lookRoot := world.Issue(w.A.RootSpec, fk, nil, fk)
		look := world.Issue(w.A.PlatSpec, fk, lookRoot, fk)
		pckEP().Body = world.MakeCRL(w.PckCrl, w.CA, fk)
		pckEP().Hdr = map[string][]string{world.HdrPckCrl: {world.IssuerChainHeader(look, lookRoot)}}
	})
	add("signer:pckcrl-by-second-ca-of-the-same-name-under-the-genuine-root", rej, "the PCK CRL (an empty one, while the genuine CRL revokes the leaf) is signed by ANOTHER CA certificate that the genuine root issued under the Platform CA's name, delivered in the response header: it is not the issuer of the leaf", func() {
		k2 := world.NewKey(t)
		sp := w.A.PlatSpec
		if w.CAID == "processor" {
			sp = w.A.ProcSpec
		}
		sp.Serial, sp.SKI = world.RandSerial(t), t.Bytes(20)
		ca2 := world.Issue(sp, k2, w.A.Root, w.A.RootKey)
		w.PckCrl.Revoked = append(w.PckCrl.Revoked, leaf) // what the genuine CA says
		w.Publish()
		clean := w.PckCrl
		clean.Revoked = nil
		pckEP().Body = world.MakeCRL(clean, ca2, k2)
		pckEP().Hdr = map[string][]string{world.HdrPckCrl: {world.IssuerChainHeader(ca2, w.A.Root)}}
	})
	add("signer:pckcrl-by-intermediate-key-in-other-name", rej, "the PCK CRL names another issuer than the leaf's issuer", func() { pckEP().Body = world.MakeCRL(w.PckCrl, w.A.Proc, w.CAKey) })
	add("signer:rootcrl-by-root-key-in-other-name", rej, "the Root CA CRL names another issuer than the chain's root", func() {
		w.PCS.ByURL[rootURL].Body = world.MakeCRL(w.RootCrl, w.A.Plat, w.A.RootKey)
	})
	add("signer:pckcrl-by-root-key", rej, "the PCK CRL is signed by the root key, not by the intermediate CA", func() { pckEP().Body = world.MakeCRL(w.PckCrl, w.CA, w.A.RootKey) })
	add("signer:pckcrl-of-processor-ca", rej, "the PCK CRL was issued by the other CA", func() { pckEP().Body = world.MakeCRL(w.PckCrl, w.A.Proc, w.A.ProcKey) })
	add("signer:pckcrl-by-processor-key-in-platform-name", rej, "the PCK CRL is signed by the other CA's key", func() { pckEP().Body = world.MakeCRL(w.PckCrl, w.CA, w.A.ProcKey) })
	add("signer:pckcrl-is-the-root-crl", rej, "the PCK CRL endpoint serves the Root CA CRL", func() { pckEP().Body = w.RootCrlDER })
	add("signer:rootcrl-by-foreign-key", rej, "the Root CA CRL is not signed by the root", func() { w.PCS.ByURL[rootURL].Body = world.MakeCRL(w.RootCrl, w.A.Root, fk) })
	add("signer:rootcrl-by-platform-ca-key", rej, "the Root CA CRL is signed by the intermediate's key", func() { w.PCS.ByURL[rootURL].Body = world.MakeCRL(w.RootCrl, w.A.Root, w.A.PlatKey) })
	add("signer:rootcrl-is-the-pck-crl", rej, "the Root CRL endpoint serves the PCK CRL", func() { w.PCS.ByURL[rootURL].Body = w.PckCrlDER })
	// two trusted roots: the quote's chain is under A, the collateral and the only obtainable Root CA CRL are
	// another trusted hierarchy's.  No Root CA CRL signed by the chain's root was obtained.
	add("two-roots:rootcrl-and-collateral-of-the-other-trusted-root", rej, "the pool trusts A and B; the chain is under A, but the Root CA CRL (and the collateral) are B's: no Root CA CRL signed by the chain's root was obtained", func() {
		B := world.NewPKI(t, "B", w.Epoch, w.A)
		if t.Bool() {
			B.RootSpec.SKI, B.TcbSpec.SKI = t.Bytes(20), t.Bytes(20)
			B.Rebuild()
		}
		w.TcbSignerInTcb, w.TcbSignerInQE, w.RootInTcb, w.RootInQE = B.Tcb, B.Tcb, B.Root, B.Root
		w.Pool = world.Pool(w.A.Root, B.Root)
		w.Publish()
		for u := range w.PCS.ByURL {
			w.PCS.ByURL[u].Body = world.MakeCRL(w.RootCrl, B.Root, B.RootKey)
		}
		r.Probe("two_trusted_roots")
	})
	// --- endpoint outcomes
	for _, which := range []string{"pckcrl", "rootcrl"} {
		which := which
		ep := func() *world.Endpoint {
			if which == "pckcrl" {
				return pckEP()
			}
			return w.PCS.ByURL[rootURL]
		}
		add("endpoint:"+which+"-transport-error", rej, "the CRL could not be fetched", func() { ep().Err = fmt.Errorf("i/o timeout") })
		add("endpoint:"+which+"-garbage", rej, "the CRL could not be parsed", func() { ep().Body = t.Bytes(200) })
		add("endpoint:"+which+"-empty", rej, "the CRL could not be parsed", func() { ep().Body = []byte{} })
		add("endpoint:"+which+"-truncated", rej, "the CRL could not be parsed", func() { ep().Body = ep().Body[:len(ep().Body)-9] })
		add("endpoint:"+which+"-pem-not-der", rej, "the CRL is not DER", func() { ep().Body = pem.EncodeToMemory(&pem.Block{Type: "X509 CRL", Bytes: ep().Body}) })
		add("endpoint:"+which+"-signature-bit-flipped", rej, "the CRL signature does not verify", func() { b := ep().Body; b[len(b)-3] ^= 4 })
		add("endpoint:"+which+"-tbs-bit-flipped", rej, "the CRL content changed after signing", func() { b := ep().Body; b[len(b)/3] ^= 1 })
	}
	add("endpoint:pckcrl-route-missing", rej, "the PCK CRL could not be fetched", func() { delete(w.PCS.PckCrl, w.CAID) })
	add("endpoint:rootcrl-route-missing", rej, "the Root CA CRL could not be fetched", func() { delete(w.PCS.ByURL, rootURL) })
	// --- several distribution points in the QE-identity issuer root
	dp := func(urls ...string) {
		w.RootInQE = w.A.ReissueRootSpec(func(s *world.CertSpec) { s.CRLDP = urls })
		w.Publish()
	}
	add("dp:failing-prefix-then-good", world.MustAccept, "a later distribution point serves the genuine Root CA CRL", func() {
		dp("https://crl-a.example/root.der", "https://crl-b.example/root.der", rootURL)
		w.PCS.ByURL["https://crl-b.example/root.der"] = &world.Endpoint{Body: t.Bytes(50)}
		delete(w.PCS.ByURL, "https://crl-a.example/root.der")
	})
	add("dp:all-failing", rej, "no distribution point serves a CRL", func() {
		dp("https://crl-a.example/root.der", "https://crl-b.example/root.der")
		w.PCS.ByURL = map[string]*world.Endpoint{"https://crl-b.example/root.der": {Err: fmt.Errorf("503")}}
	})
	add("dp:none-listed", rej, "the QE-identity issuer root names no distribution point, so no Root CA CRL can be obtained", func() { dp() })
	add("dp:good-then-revoking-ignored-later", world.MustReject, "the first obtainable Root CA CRL revokes the intermediate", func() {
		dp(rootURL, "https://crl-b.example/root.der")
		clean := w.RootCrlDER
		w.RootCrl.Revoked = append(w.RootCrl.Revoked, inter)
		w.PCS.ByURL[rootURL] = &world.Endpoint{Body: world.MakeCRL(w.RootCrl, w.A.Root, w.A.RootKey)}
		w.PCS.ByURL["https://crl-b.example/root.der"] = &world.Endpoint{Body: clean}
	})

	for _, c := range cases {
		if !r.Item(c.name) {
			continue
		}
		reset()
		// genuine first, then the fault: the verifier has just seen (and accepted) the honest artifacts of this
		// very world when the faulty ones arrive — whatever it remembers of them must not vouch for their
		// look-alikes
		if ctl := verifyRaw(raw, worldOpts(w, O2)); !ctl.Accepted() {
			r.Count("control_failed", 1)
		}
		c.setup()
		o := verifyRaw(raw, worldOpts(w, O2))
		r.Eval()
		r.Eventf("%s expect=%s -> %s", c.name, c.expect, errClass(o))
		r.State("%s", c.name)
		r.Fault("crl:"+classOfC05(c.name), true)
		switch {
		case c.expect == world.MustReject && o.Accepted():
			r.Violate("C05:accepted:"+classOfC05(c.name), "%s: accepted with revocation checking on although %s (world %s)", c.name, c.why, w.Describe())
		case c.expect == world.MustAccept && !o.Accepted():
			r.Count("unrelated_serials_rejected(C11 matter)", 1)
			r.Violate("C05:unlisted-rejected:"+classOfC05(c.name), "%s: rejected although %s: %s", c.name, c.why, o.ErrText())
		}
		if c.name == "revoked:leaf-in-pckcrl" {
			r.Probe("leaf_serial_listed_in_authentic_pck_crl")
		}
		if c.name == "revoked:qeidentity-signer-in-rootcrl" {
			r.Probe("qe_signer_revoked_separately")
		}
		// the same fault without revocation checking must not matter for the CRL-only faults (no claim; just reach)
		r.EndItem()
	}
	reset()
	// revocation without collateral always fails
	if r.Item("options:revocation-without-collateral") {
		o := verifyRaw(raw, worldOpts(w, O3))
		r.Eval()
		r.State("options:revocation-without-collateral")
		r.Eventf("revocation-without-collateral -> %s", errClass(o))
		if o.Accepted() {
			r.Violate("C05:accepted:revocation-without-collateral", "CheckRevocations without GetCollateral accepted an (honest) quote; it must always fail")
		}
		r.Probe("revocation_without_collateral")
		r.EndItem()
	}
	// the same request expressed as a root-of-trust configuration (check_crl without get_collateral): the
	// conversion must not quietly drop the revocation request
	if r.Item("options:revocation-without-collateral-via-root-of-trust") {
		opts, err := verify.RootOfTrustToOptions(&ccpb.RootOfTrust{Cabundles: []string{string(w.A.Root.PEM())}, CheckCrl: true, GetCollateral: false})
		r.Eval()
		r.State("options:revocation-without-collateral-via-root-of-trust")
		if err == nil && opts != nil {
			opts.Getter, opts.Now = w.PCS, timeSet(w.Times)
			o := verifyRaw(raw, opts)
			r.Eventf("root-of-trust{check_crl, no get_collateral} -> %s", errClass(o))
			if o.Accepted() {
				r.Violate("C05:accepted:revocation-without-collateral-via-root-of-trust", "options built by RootOfTrustToOptions from {check_crl: true, get_collateral: false} accepted an (honest) quote: the revocation request was dropped on the way, no CRL was consulted")
			}
		} else {
			r.Eventf("root-of-trust{check_crl, no get_collateral} refused by the converter: %v", err)
		}
		r.Probe("revocation_without_collateral_via_root_of_trust")
		r.EndItem()
	}
	// a long-lived options value: after a verification with collateral and revocation, switching
	// collateral off while revocation stays on must fail again (no leftover CRLs)
	if r.Item("options:revocation-without-collateral-after-collateral") {
		long := worldOpts(w, O2)
		first := verifyRaw(raw, long)
		long.GetCollateral = false
		second := verifyRaw(raw, long)
		r.Eval()
		r.State("options:revocation-without-collateral-after-collateral")
		r.Eventf("long-lived options: O2 -> %s, then revocation-only -> %s", errClass(first), errClass(second))
		if second.Accepted() {
			r.Violate("C05:accepted:revocation-without-collateral-after-collateral", "an options value that had verified with collateral accepted the next quote with CheckRevocations on and GetCollateral off")
		}
		r.EndItem()
	}
	// control
	if o := verifyRaw(raw, worldOpts(w, O2)); !o.Accepted() {
		r.Count("control_failed", 1)
		r.Eventf("control failed: %s", errClass(o))
	}
	r.Sample("world %s with two TCB-signing certificates: %d revocation cases (serial sets incl. near-misses and up to 4099 entries, CRL signers, endpoint outcomes, several distribution points), e.g. revoked:qeidentity-signer-in-rootcrl rejected", w.Describe(), len(cases))
}

func classOfC05(name string) string {
	for i := len(name) - 1; i > 0; i-- {
		if name[i] == '-' && i+1 < len(name) && name[i+1] >= '0' && name[i+1] <= '9' {
			return name[:i]
		}
	}
	return name
}

func init() {
	register(&core.Check{
		ID:    "C05",
		Level: "exploration",
		Rule: "per run one seeded honest world (TCB Info and QE Identity signed by two different TCB-signing certificates; in a quarter of the worlds certificates name their issuer not by key identifier but not at all / by issuer+serial / by all three fields) verified with revocation checking under ~55 CRL situations: leaf / intermediate / each collateral signer revoked (alone, first / middle / last / last but one / last but two of 3..4099 entries in no particular order), 10 near-miss serials, serial in the other CRL, CRLs signed by a foreign key / the root key / the other CA / in the wrong name / swapped CRLs, endpoint error / garbage / empty / truncated / PEM / bit-flipped signature or content / missing route for both CRLs, several Root-CRL distribution points (failing prefix then good, all failing, none, good-first); a pool of two trusted hierarchies with the chain under one and CRL + collateral of the other; plus revocation-without-collateral. " +
			"distinct = case name; every case but the near-miss / other-CRL / dp-prefix ones must be rejected",
		Assumptions: []string{
			"a serial listed in the other issuer's CRL is don't-care; the PCK-CRL issuer-chain header is not part of the claim",
			"near-miss serials are unrelated serials and must not cause rejection (honest-acceptance clause)",
		},
		RealStub: map[string]string{"verify.RawTdxQuote with CheckRevocations": "real", "crypto/x509 CRL parsing": "real (trusted base)", "Intel CA (CRL issuer) and PCS CRL endpoints": "stub (world)"},
		Runs: func(tier string) int {
			if tier == "thorough" {
				return 4000
			}
			return 96
		},
		Run:       c05Run,
		MustProbe: []string{"leaf_serial_listed_in_authentic_pck_crl", "qe_signer_revoked_separately", "revocation_without_collateral", "two_trusted_roots", "revocation_without_collateral_via_root_of_trust"},
	})
}
