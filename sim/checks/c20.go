package checks

import (
	"bytes"
	"context"
	"errors"
	"fmt"
	"io"
	"net/http"
	"net/url"
	"sort"
	"sync"
	"sync/atomic"
	"testing"
	"testing/synctest"
	"time"

	"github.com/google/go-tdx-guest/verify/trust"
	"verif/sim/core"
)

// C20 — trust.RetryHTTPSGetter (real code) inside a testing/synctest bubble
// (fake clock), wrapping a scripted getter that fails k times, is slow, or
// fails forever.

type c20Attempt struct {
	start, end time.Duration // simulated, relative to the start of Get
	ok         bool
}

type c20Getter struct {
	t0         time.Time
	failFirst  int // number of failures before the first success; <0 = forever
	latency    time.Duration
	hdr        map[string][]string
	body       []byte
	url        string
	attempts   []c20Attempt
	urls       []string
	sameInst   int
	busy       bool
	errKind    int // which error the failures carry (see c20Failure); errMixed: a different kind each attempt
	errMixed   bool
	horizon    time.Duration // an attempt starting later than this (simulated) is a runaway: Get does not give up
	runaway    bool
	retryAfter int  // seconds named in the Retry-After header of failure kind 6
	latFirst   bool // only the first attempt is slow (a connection that times out once), later ones answer at once
	viaHTTP    bool // the script is reached through the real SimpleHTTPSGetter on a simulated HTTP transport
}

type c20NetTimeout struct{}

func (c20NetTimeout) Error() string   { return "c20: i/o timeout" }
func (c20NetTimeout) Timeout() bool   { return true }
func (c20NetTimeout) Temporary() bool { return true }

// c20Failure: the errors a real HTTPS getter fails with.  None of them is the retry loop's own
// deadline, whatever they wrap: all are failed attempts to be retried.
func c20Failure(kind, idx int, u string) error {
	switch kind % 6 {
	case 1: // http.Client.Timeout fired inside the wrapped getter
		return &url.Error{Op: "Get", URL: u, Err: context.DeadlineExceeded}
	case 2:
		return fmt.Errorf("scripted failure #%d: %w", idx+1, context.Canceled)
	case 3:
		return io.ErrUnexpectedEOF
	case 4:
		return &url.Error{Op: "Get", URL: u, Err: c20NetTimeout{}}
	case 5:
		return fmt.Errorf("failed to retrieve %s, status code received 503", u)
	}
	return fmt.Errorf("scripted failure #%d", idx+1)
}

var errC20Busy = errors.New("c20: busy loop detected, run aborted")

// errC20Runaway: an attempt started long after anything the settings allow — Get is not going to give up.
var errC20Runaway = errors.New("c20: still retrying far beyond the timeout, run aborted")

func (g *c20Getter) Get(u string) (map[string][]string, []byte, error) {
	url := u
	st := time.Since(g.t0)
	// Three attempts starting at one simulated instant = no waiting at all.
	if n := len(g.attempts); n > 0 && g.attempts[n-1].start == st {
		g.sameInst++
		if g.sameInst >= 2 {
			g.busy = true
			panic(errC20Busy)
		}
	} else {
		g.sameInst = 0
	}
	if g.horizon > 0 && st > g.horizon {
		g.runaway = true
		panic(errC20Runaway)
	}
	if g.latency > 0 && (!g.latFirst || len(g.attempts) == 0) {
		time.Sleep(g.latency)
	}
	en := time.Since(g.t0)
	g.urls = append(g.urls, url)
	idx := len(g.attempts)
	ok := g.failFirst >= 0 && idx >= g.failFirst
	g.attempts = append(g.attempts, c20Attempt{st, en, ok})
	if !ok {
		k := g.errKind
		if g.errMixed {
			k += idx
		}
		if k%7 == 6 {
			// a failed response that still carries headers and a body (an HTTP 429 / 503 with Retry-After,
			// as trust.SimpleHTTPSGetter could hand on): advice from the far side does not lift the configured cap
			return map[string][]string{"Retry-After": {fmt.Sprint(g.retryAfter)}, "Content-Type": {"text/plain"}}, []byte("slow down"), fmt.Errorf("failed to retrieve %s, status code received 429", url)
		}
		return nil, nil, c20Failure(k, idx, url)
	}
	// hand out fresh copies: the oracle compares against the private originals.
	var h map[string][]string
	if g.hdr != nil {
		h = map[string][]string{}
	}
	for k, v := range g.hdr {
		h[k] = append([]string(nil), v...)
	}
	return h, append([]byte(nil), g.body...), nil
}

type c20Result struct {
	hdr     map[string][]string
	body    []byte
	err     error
	elapsed time.Duration
	aborted bool
	runaway bool
	panicV  string
}

// c20Transport is a simulated HTTP transport (installed once as http.DefaultTransport): no sockets, the
// response comes from the scripted getter registered for the request's host.  It lets the REAL
// trust.SimpleHTTPSGetter (http.Get, status handling, header and body reading) sit between the retry loop
// and the script, inside the fake-clock bubble.
type c20Transport struct {
	mu    sync.Mutex
	hosts map[string]*c20Getter
	next  http.RoundTripper
}

var (
	c20Net     = &c20Transport{hosts: map[string]*c20Getter{}}
	c20NetOnce sync.Once
	c20HostSeq atomic.Uint64
)

func (tr *c20Transport) RoundTrip(req *http.Request) (*http.Response, error) {
	tr.mu.Lock()
	g := tr.hosts[req.URL.Host]
	tr.mu.Unlock()
	if g == nil {
		return nil, fmt.Errorf("dial tcp: lookup %s: no such host (sealed sandbox)", req.URL.Host)
	}
	idx := len(g.attempts)
	h, b, err := g.Get(req.URL.String())
	mk := func(code int, hdr map[string][]string, body []byte) *http.Response {
		return &http.Response{StatusCode: code, Status: fmt.Sprintf("%d %s", code, http.StatusText(code)), Proto: "HTTP/1.1", ProtoMajor: 1, ProtoMinor: 1,
			Header: http.Header(hdr), Body: io.NopCloser(bytes.NewReader(body)), ContentLength: int64(len(body)), Request: req}
	}
	if err == nil {
		return mk(200, h, b), nil
	}
	// a failed attempt: an HTTP status (throttling, client or server error) or a transport error
	code := []int{429, 503, 0, 408, 404, 500, 425, 301, 403}[(g.errKind+idx*btoi(g.errMixed))%9]
	if code == 0 {
		return nil, err
	}
	return mk(code, map[string][]string{"Retry-After": {fmt.Sprint(g.retryAfter)}}, []byte("no")), nil
}

func btoi(b bool) int {
	if b {
		return 1
	}
	return 0
}

// c20Bubble runs one Get in a bubble.  rg, if non-nil, is a long-lived retrying getter that
// already served earlier calls (its wrapped getter is re-pointed at g for this call).
func c20Bubble(tb *testing.T, timeout, maxDelay time.Duration, g *c20Getter, shared ...*trust.RetryHTTPSGetter) (res c20Result) {
	synctest.Test(tb, func(t *testing.T) {
		g.t0 = time.Now()
		var wrapped trust.HTTPSGetter = g
		if g.viaHTTP {
			// the default combination: the retry loop over the real SimpleHTTPSGetter, on the simulated transport
			c20NetOnce.Do(func() { c20Net.next = http.DefaultTransport; http.DefaultTransport = c20Net })
			host := fmt.Sprintf("sim%d.pcs.example", c20HostSeq.Add(1))
			c20Net.mu.Lock()
			c20Net.hosts[host] = g
			c20Net.mu.Unlock()
			defer func() { c20Net.mu.Lock(); delete(c20Net.hosts, host); c20Net.mu.Unlock() }()
			g.url = "https://" + host + "/tcb"
			wrapped = &trust.SimpleHTTPSGetter{}
		}
		rg := &trust.RetryHTTPSGetter{Timeout: timeout, MaxRetryDelay: maxDelay, Getter: wrapped}
		if len(shared) == 1 && shared[0] != nil {
			rg = shared[0]
			rg.Getter = wrapped
		}
		func() {
			defer func() {
				if p := recover(); p != nil {
					if e, ok := p.(error); ok && errors.Is(e, errC20Busy) {
						res.aborted = true
						return
					}
					if e, ok := p.(error); ok && errors.Is(e, errC20Runaway) {
						res.runaway = true
						return
					}
					res.panicV = fmt.Sprint(p)
				}
			}()
			res.hdr, res.body, res.err = rg.Get(g.url)
		}()
		res.elapsed = time.Since(g.t0)
	})
	return
}

func hdrEqual(a, b map[string][]string) bool {
	if len(a) != len(b) {
		return false
	}
	for k, va := range a {
		vb, ok := b[k]
		if !ok || len(va) != len(vb) {
			return false
		}
		for i := range va {
			if va[i] != vb[i] {
				return false
			}
		}
	}
	return true
}

var (
	c20Timeouts = []time.Duration{0, time.Millisecond, 1500 * time.Millisecond, 10 * time.Second, 2 * time.Minute, time.Hour}
	c20Delays   = []time.Duration{0, time.Millisecond, 3 * time.Second, 30 * time.Second, 10 * time.Minute}
	c20Lats     = []time.Duration{0, time.Millisecond, time.Second, 40 * time.Second}
)

func c20Run(r *core.Run) {
	nCells := len(c20Timeouts) * len(c20Delays) * len(c20Lats)
	cell := r.Index % nCells
	ti := cell / (len(c20Delays) * len(c20Lats))
	di := (cell / len(c20Lats)) % len(c20Delays)
	li := cell % len(c20Lats)
	// +500ns keeps the overall deadline and a retry timer from ever expiring at the
	// same simulated instant (that tie would be resolved by the runtime's unseeded select).
	timeout := c20Timeouts[ti]
	if timeout > 0 {
		timeout += 500 * time.Nanosecond
	}
	maxDelay := c20Delays[di]
	lat := c20Lats[li]
	if r.Index >= nCells {
		// beyond the grid: tape-chosen settings (swarm)
		timeout = time.Duration(r.T.Range(1, 200_000))*time.Millisecond + 500*time.Nanosecond
		maxDelay = time.Duration(r.T.Range(1, 60_000)) * time.Millisecond
		lat = time.Duration(r.T.Draw(3)) * time.Duration(r.T.Range(0, 5000)) * time.Millisecond
	}
	// With MaxRetryDelay = 0 the retry timer is always ready; once the deadline has passed too,
	// the Go runtime's select picks between them at random, which no seed controls.  Those
	// cells are simulated only where the deadline provably lies beyond the explored prefix
	// (k <= 2 failures, deadline > 4 attempts away); the rest is not simulated (see evidence).
	maxK := 40
	if maxDelay == 0 {
		if timeout == 0 || (lat > 0 && timeout <= 4*lat) {
			r.Count("skipped.maxdelay0_unseeded_select", 1)
			r.Eventf("cell timeout=%v maxDelay=0 latency=%v skipped (unseeded select)", timeout, lat)
			return
		}
		maxK = 2
	}
	hdr := map[string][]string{"X-Seq": {fmt.Sprintf("%x", r.T.Bytes(6))}, "Tcb-Info-Issuer-Chain": {string(r.T.Bytes(20)), "second"}}
	body0 := r.T.Bytes(r.T.Range(0, 300))
	if r.Index%7 == 3 {
		hdr = nil // e.g. the Root CA CRL endpoint: a success without any header
	}
	emptyBody := r.Index%5 == 2 && r.Index%2 == 0 // never together with the long-lived getter (bodies tell calls apart there)
	if emptyBody {
		r.Probe("successful_response_with_empty_body")
	}
	errKind, errMixed := r.T.Draw(7), r.T.Chance(1, 3)
	viaHTTP := r.T.Chance(1, 3)
	if viaHTTP {
		r.Probe("through_the_real_simple_getter_on_a_simulated_transport")
	}
	retryAfter := []int{7200, int(3*maxDelay/time.Second) + 1}[r.T.Draw(2)]
	latFirst := lat > 0 && r.T.Chance(1, 3)
	if latFirst {
		r.Probe("only_first_attempt_slow")
	}
	if errKind == 1 || errKind == 2 || errMixed {
		r.Probe("failures_wrap_context_errors")
	}
	body := body0
	url := fmt.Sprintf("https://pcs.example/%x", r.T.Bytes(4))
	bound := timeout + maxDelay + lat

	// k failures then success, for k = 0.. until the getter gives up twice in a row; then failures forever.
	// In every second cell all these calls go through ONE RetryHTTPSGetter value and one URL (a
	// long-lived getter): what an earlier call fetched must not leak into a later one.
	var long *trust.RetryHTTPSGetter
	if r.Index%2 == 1 {
		long = &trust.RetryHTTPSGetter{Timeout: timeout, MaxRetryDelay: maxDelay}
		r.Probe("calls_through_one_long_lived_getter")
	}
	// Two independent retrying getters are asked for the SAME URL at overlapping times: one whose back end keeps
	// failing, one whose back end is healthy.  Each returns what ITS wrapped getter gives, within ITS own bounds.
	if r.Item("two-getters-one-url") {
		c20TwoGetters(r, url, hdr, body0)
		r.EndItem()
	}
	gaveUp := 0
	for k := 0; ; k++ {
		ff := k
		if k > maxK && maxDelay == 0 {
			break
		}
		if gaveUp >= 2 || k > maxK {
			ff = -1
		}
		if ff < 0 && !r.Thorough() && maxDelay > 0 && timeout/maxDelay > 200_000 {
			// millions of fake-clock timer firings: thorough tier only
			r.Count("skipped.forever_case_too_long_for_quick", 1)
			break
		}
		name := fmt.Sprintf("T=%v,D=%v,L=%v,k=%d", timeout, maxDelay, lat, ff)
		if !r.Item(name) {
			if ff < 0 {
				break
			}
			// keep the enumeration shape identical under Focus: we need to know when to stop,
			// which depends on outcomes, so execute silently without judging.
			g := &c20Getter{failFirst: ff, latency: lat, hdr: hdr, body: body, url: url, errKind: errKind, errMixed: errMixed, latFirst: latFirst, retryAfter: retryAfter, horizon: 4*bound + time.Hour, viaHTTP: viaHTTP}
			res := c20Bubble(r.TB, timeout, maxDelay, g, long)
			if res.aborted || res.runaway || res.err != nil {
				gaveUp++
			}
			continue
		}
		// every call serves its own body, so a response from an earlier call is recognisable
		body = append(append([]byte(nil), body0...), byte(k), byte(k>>8))
		if emptyBody {
			body = []byte{} // a successful response may have an empty body: it is a success all the same
		}
		g := &c20Getter{failFirst: ff, latency: lat, hdr: hdr, body: body, url: url, errKind: errKind, errMixed: errMixed, latFirst: latFirst, retryAfter: retryAfter, horizon: 4*bound + time.Hour, viaHTTP: viaHTTP}
		res := c20Bubble(r.TB, timeout, maxDelay, g, long)
		r.Eval()
		r.SimTime += res.elapsed
		nAtt := len(g.attempts)
		outcome := "success"
		if res.aborted {
			outcome = "aborted-busy"
		} else if res.panicV != "" {
			outcome = "panic"
		} else if res.err != nil {
			outcome = "error"
		}
		r.Eventf("%s -> %s attempts=%d elapsed=%v", name, outcome, nAtt, res.elapsed)
		r.State("T=%d,D=%d,L=%d,k=%s,%s", ti, di, li, bucket(ff), outcome)
		if ff > 0 {
			r.Fault("getter_failure", nAtt > 0 && !g.attempts[0].ok)
		}
		if ff < 0 {
			r.Fault("getter_fails_forever", true)
		}
		if lat > 0 {
			r.Fault("slow_getter", true)
		}
		cls := fmt.Sprintf("maxdelay=%s", zeroOr(maxDelay))

		if res.panicV != "" {
			r.Violate("C20:panic:"+cls, "%s: RetryHTTPSGetter.Get panicked: %s", name, res.panicV)
		}
		if res.runaway {
			r.Violate("C20:never-gives-up", "%s: attempt %d started at simulated %v, long after Timeout %v + MaxRetryDelay %v + latency %v: Get keeps retrying instead of returning an error (aborted by the simulator)", name, nAtt+1, g.horizon, timeout, maxDelay, lat)
			gaveUp++
			r.EndItem()
			if ff < 0 {
				break
			}
			continue
		}
		if res.aborted {
			r.Probe("busy_loop_detected")
			r.Violate("C20:busy-loop:"+cls, "%s: three attempts started at the same simulated instant %v (no wait between failed attempts)", name, g.attempts[len(g.attempts)-1].start)
			gaveUp++
			r.EndItem()
			if ff < 0 {
				break
			}
			continue
		}
		// no attempt after the first success
		firstOK := -1
		for i, a := range g.attempts {
			if a.ok {
				firstOK = i
				break
			}
		}
		if firstOK >= 0 && firstOK != nAtt-1 {
			r.Violate("C20:attempt-after-success", "%s: %d attempts made after the first success", name, nAtt-1-firstOK)
		}
		if firstOK >= 0 {
			if res.err != nil {
				r.Violate("C20:success-dropped", "%s: wrapped getter succeeded at attempt %d but Get returned error %v", name, firstOK+1, res.err)
			} else if !hdrEqual(res.hdr, hdr) || !bytes.Equal(res.body, body) {
				r.Violate("C20:response-modified", "%s: returned header/body differ from the first successful response", name)
			}
			r.Probe("success_after_failures_" + bucket(ff))
		} else if res.err == nil {
			r.Violate("C20:success-invented", "%s: Get returned nil error although the wrapped getter never succeeded", name)
		}
		// waits between failed attempts
		for i := 0; i+1 < nAtt; i++ {
			gap := g.attempts[i+1].start - g.attempts[i].end
			if gap <= 0 {
				r.Violate("C20:no-wait:"+cls, "%s: attempt %d started %v after failed attempt %d ended (no wait)", name, i+2, gap, i+1)
				break
			}
			if gap > maxDelay {
				r.Violate("C20:wait-exceeds-max", "%s: waited %v before attempt %d, MaxRetryDelay is %v", name, gap, i+2, maxDelay)
				break
			}
			if gap == maxDelay {
				r.Probe("wait_capped_at_max")
			}
		}
		for _, u := range g.urls {
			if u != g.url {
				r.Violate("C20:url-changed", "%s: wrapped getter was asked for %q instead of %q", name, u, g.url)
				break
			}
		}
		if res.err != nil && nAtt > 0 {
			// the wait that ends in giving up is a wait too
			if last := res.elapsed - g.attempts[nAtt-1].end; last > maxDelay {
				r.Violate("C20:wait-exceeds-max", "%s: after the last failed attempt Get sat for %v before giving up, MaxRetryDelay is %v", name, last, maxDelay)
			}
		}
		if res.err != nil {
			gaveUp++
			if res.elapsed > bound {
				r.Violate("C20:late-giveup", "%s: gave up after %v, bound Timeout+MaxRetryDelay+latency = %v", name, res.elapsed, bound)
			}
			if ff < 0 {
				r.Probe("gave_up_within_bound")
			}
			// giving up is for when the timeout is used up: an error while even a full MaxRetryDelay wait
			// would still end inside the timeout means attempts the timeout allows were never made
			if firstOK < 0 && res.elapsed+maxDelay < timeout {
				r.Violate("C20:early-giveup", "%s: gave up after %v and %d attempt(s) (last failure: %v) although the timeout is %v and the longest wait %v: the timeout allowed further attempts%s", name, res.elapsed, nAtt, res.err, timeout, maxDelay,
					tern(ff >= 0, fmt.Sprintf("; attempt %d would have succeeded", ff+1), ""))
			}
		}
		r.Sample("%s: %s after %d attempts, elapsed %v (simulated); attempt starts %v", name, outcome, nAtt, res.elapsed, attemptStarts(g.attempts))
		r.EndItem()
		if ff < 0 {
			break
		}
	}
}

func attemptStarts(a []c20Attempt) []string {
	var out []string
	for i, x := range a {
		if i >= 8 {
			out = append(out, "...")
			break
		}
		out = append(out, x.start.String())
	}
	return out
}

func bucket(k int) string {
	switch {
	case k < 0:
		return "forever"
	case k == 0:
		return "0"
	case k == 1:
		return "1"
	case k <= 3:
		return "2-3"
	default:
		return "4+"
	}
}

func zeroOr(d time.Duration) string {
	if d == 0 {
		return "0"
	}
	return "positive"
}

func init() {
	_ = sort.Strings
	nCells := len(c20Timeouts) * len(c20Delays) * len(c20Lats)
	register(&core.Check{
		ID:    "C20",
		Level: "fault_enumeration",
		Rule: "grid Timeout{0,1ms,1.5s,10s,2min,1h} x MaxRetryDelay{0,1ms,3s,30s,10min} x per-attempt latency{0,1ms,1s,40s} enumerated completely (one run per cell), " +
			"inside each cell k failures-then-success for every k until the getter gives up twice, then failures forever; failures carry the errors a real getter fails with (plain, *url.Error wrapping context.DeadlineExceeded as http.Client.Timeout gives, wrapped context.Canceled, unexpected EOF, a net timeout, an HTTP status text, a 429 handed on with its Retry-After header and body), one kind per cell or a different one each attempt; besides the bounds from the statement, an error returned while even a full MaxRetryDelay wait would end inside the timeout is an early give-up; thorough adds tape-chosen settings beyond the grid. " +
			"distinct = (timeout idx, delay idx, latency idx, k bucket, outcome); every case has at least one injected failure or a slow/zero setting except k=0 (kept as control)",
		Exhaustive: true,
		Assumptions: []string{
			"testing/synctest (go1.26.8) fake clock is faithful to time.After / context.WithTimeout semantics",
			"cell Timeout=0 & MaxRetryDelay=0 is not simulated: both select cases are always ready and the Go runtime picks at random, which no seed controls",
			"trust.SimpleHTTPSGetter (http.Get) is the far side of the seam and is not exercised",
		},
		RealStub: map[string]string{"trust.RetryHTTPSGetter": "real", "wrapped HTTPSGetter": "stub (scripted failures/latency)", "clock": "testing/synctest fake clock", "trust.SimpleHTTPSGetter": "not exercised"},
		Runs: func(tier string) int {
			if tier == "thorough" {
				return nCells + 20000
			}
			return nCells + 240
		},
		Run:         c20Run,
		MustProbe:   []string{"gave_up_within_bound", "wait_capped_at_max", "success_after_failures_4+", "calls_through_one_long_lived_getter", "successful_response_with_empty_body", "failures_wrap_context_errors", "two_getters_one_url"},
		SimTimeNote: "sum of fake-clock time elapsed inside RetryHTTPSGetter.Get over all bubbles",
	})
}

func c20TwoGetters(r *core.Run, url string, hdr map[string][]string, body []byte) {
	tA, dA := time.Duration(1+r.T.Draw(5))*time.Second, time.Duration(20+r.T.Draw(200))*time.Millisecond
	tB, dB := time.Duration(100+r.T.Draw(400))*time.Millisecond, time.Duration(10+r.T.Draw(50))*time.Millisecond
	startB := time.Duration(r.T.Draw(int(tA/time.Millisecond)-50)) * time.Millisecond
	gA := &c20Getter{failFirst: -1, url: url, horizon: 10 * tA}
	gB := &c20Getter{failFirst: 0, hdr: hdr, body: body, url: url, horizon: 10 * tA}
	var resA, resB c20Result
	var elB time.Duration
	leak := ""
	func() {
		defer func() {
			if p := recover(); p != nil {
				leak = fmt.Sprint(p)
			}
		}()
		synctest.Test(r.TB, func(*testing.T) {
			t0 := time.Now()
			gA.t0, gB.t0 = t0, t0
			var wg sync.WaitGroup
			run := func(g *c20Getter, timeout, maxDelay, start time.Duration, res *c20Result, el *time.Duration) {
				defer wg.Done()
				defer func() {
					if p := recover(); p != nil {
						res.panicV = fmt.Sprint(p)
					}
				}()
				time.Sleep(start)
				s0 := time.Now()
				rg := &trust.RetryHTTPSGetter{Timeout: timeout, MaxRetryDelay: maxDelay, Getter: g}
				res.hdr, res.body, res.err = rg.Get(url)
				if el != nil {
					*el = time.Since(s0)
				}
			}
			wg.Add(2)
			go run(gA, tA, dA, 0, &resA, nil)
			go run(gB, tB, dB, startB, &resB, &elB)
			wg.Wait()
		})
	}()
	r.Eval()
	r.State("two-getters-one-url")
	r.Eventf("two getters one URL: A(T=%v,D=%v, fails for ever) B(T=%v,D=%v, healthy, starts at %v) -> A err=%v attempts=%d; B err=%v attempts=%d elapsed=%v", tA, dA, tB, dB, startB, resA.err != nil, len(gA.attempts), resB.err != nil, len(gB.attempts), elB)
	r.Fault("sched:two_getters_same_url_overlapping", true)
	r.Probe("two_getters_one_url")
	if leak != "" {
		r.Violate("C20:two-getters:goroutines-left-blocked", "after two overlapping Get calls for one URL goroutines were still blocked: %s", leak)
		return
	}
	if resB.panicV != "" || resA.panicV != "" {
		r.Violate("C20:two-getters:panic", "Get panicked: %s %s", resA.panicV, resB.panicV)
		return
	}
	if resB.err != nil || len(gB.attempts) == 0 || !bytes.Equal(resB.body, body) {
		r.Violate("C20:two-getters:other-getters-outcome", "getter B (healthy back end, Timeout %v) was asked for a URL that getter A (failing back end, Timeout %v) was still retrying: B returned err=%v after %v having made %d attempt(s) with its own wrapped getter — it must return its own wrapped getter's first success", tB, tA, resB.err, elB, len(gB.attempts))
	} else if elB > tB+dB {
		r.Violate("C20:two-getters:late", "getter B (healthy back end) took %v, beyond its own Timeout %v + MaxRetryDelay %v, while another getter was retrying the same URL", elB, tB, dB)
	}
	if resA.err == nil {
		r.Violate("C20:two-getters:success-invented", "getter A's back end never succeeded, yet its Get returned nil error (while getter B fetched the same URL successfully)")
	}
}
