package checks

import (
	"fmt"
	"os"
	"path/filepath"
	"regexp"
	"strings"
	"testing"
	"testing/synctest"
	"time"

	"github.com/google/go-tdx-guest/abi"
	pb "github.com/google/go-tdx-guest/proto/tdx"
	tdxtesting "github.com/google/go-tdx-guest/testing"
	"github.com/google/go-tdx-guest/testing/testdata"
	"github.com/google/go-tdx-guest/verify"
	"verif/sim/core"
	"verif/sim/world"
)

var (
	reQuoted = regexp.MustCompile(`"[^"]*"|\([^)]*\)`)
	reHex    = regexp.MustCompile(`[0-9a-fA-F]{6,}`)
	reNum    = regexp.MustCompile(`[0-9]+`)
)

// errClass canonicalises an error text into a short space-free class.
func errClass(o core.Outcome) string {
	if o.Panicked {
		return "panic@" + core.PanicFunc(o.Stack)
	}
	if o.Err == nil {
		return "accepted"
	}
	s := o.Err.Error()
	s = reQuoted.ReplaceAllString(s, "")
	s = reHex.ReplaceAllString(s, "H")
	s = reNum.ReplaceAllString(s, "N")
	s = strings.Join(strings.Fields(s), "_")
	if len(s) > 70 {
		s = s[:70]
	}
	return s
}

func repoDir() string {
	if d := os.Getenv("VERIF_REPO"); d != "" {
		return d
	}
	return "/repo"
}

// swarmCfg draws a world shape.
func swarmCfg(r *core.Run) world.Cfg {
	t := r.T
	cfg := world.Cfg{Processor: 1}
	cfg.AuthLen = []int{0, -1, 1, 31, 32, 33, 255, 4096, 65535}[t.Draw(9)]
	if t.Chance(1, 4) {
		cfg.AuthLen = 1 + t.Draw(2000)
	}
	if t.Chance(1, 3) {
		cfg.ExtraBytes = 1 + t.Draw(64)
	}
	cfg.SpreadTimes = t.Bool()
	cfg.PermuteExt = t.Bool()
	return cfg
}

// quoteForms returns the three forms in which a quote reaches the verifier.
func quoteForms(w *world.World) (raw []byte, parsed *pb.QuoteV4, built *pb.QuoteV4, perr error) {
	raw = w.Quote.Bytes()
	m, err := abi.QuoteToProto(append([]byte(nil), raw...))
	if err != nil {
		return raw, nil, w.Quote.Proto(0), err
	}
	return raw, m.(*pb.QuoteV4), w.Quote.Proto(0), nil
}

// c11Defaults: the library's own default options (time read from the clock by the library)
// on the testing/synctest fake clock, for an honest world generated around the bubble's epoch.
func c11Defaults(r *core.Run) {
	bubbleEpoch := time.Date(2000, 1, 1, 0, 0, 0, 0, time.UTC)
	cfg := swarmCfg(r)
	cfg.Epoch = bubbleEpoch.AddDate(0, 0, 2)
	cfg.SpreadTimes = false
	w := world.NewWorld(r.T, cfg)
	raw := w.Quote.Bytes()
	wait := time.Duration(r.T.Draw(4*24)) * time.Hour // up to 4 days after the bubble's start: still inside every window
	type res struct{ name, verdict string }
	var out []res
	synctest.Test(r.TB, func(tb *testing.T) {
		time.Sleep(wait)
		for level := O0; level <= O2; level++ {
			o := verify.DefaultOptions() // Now := time.Now() of the fake clock
			o.Getter, o.TrustedRoots = w.PCS, w.Pool
			o.GetCollateral, o.CheckRevocations = level >= O1, level == O2
			out = append(out, res{"DefaultOptions/" + optNames[level], errClass(verifyRaw(raw, o))})
			o2 := &verify.Options{Getter: w.PCS, TrustedRoots: w.Pool, GetCollateral: level >= O1, CheckRevocations: level == O2} // Now unset
			out = append(out, res{"Now-unset/" + optNames[level], errClass(verifyRaw(raw, o2))})
		}
	})
	for _, x := range out {
		r.Eval()
		r.Eventf("%s at fake clock +%v -> %s", x.name, wait, x.verdict)
		if x.verdict != "accepted" {
			r.Violate("C11:honest-rejected-with-default-time:"+x.verdict, "honest in-date world rejected with %s (time taken from the clock, fake clock at epoch+%v): %s", x.name, wait, x.verdict)
		}
	}
	r.SimTime += wait
	r.Probe("default_options_on_fake_clock")
	r.State("defaults wait=%dd", int(wait.Hours())/24)
}

func c11Run(r *core.Run) {
	if r.Index == 0 {
		// first a verification under a private pool, so that the samples are never the first thing this process
		// verifies: what the library keeps of its embedded root is not what an earlier caller trusted
		w0 := world.NewWorld(r.T, world.Cfg{AuthLen: 0, NetLat: -1})
		if o := verifyRaw(w0.Quote.Bytes(), worldOpts(w0, O0)); !o.Accepted() {
			r.Violate("C11:honest-rejected:base:"+errClass(o), "honest in-date world (%s) rejected: %s", w0.Describe(), o.ErrText())
		}
		r.Eval()
		c11Samples(r)
		return
	}
	if r.Index%10 == 1 {
		c11Defaults(r)
		return
	}
	cfg := swarmCfg(r)
	w := world.NewWorld(r.T, cfg)
	r.Eventf("world %s", w.Describe())
	raw, parsed, built, perr := quoteForms(w)
	if perr != nil {
		r.Violate("C11:honest-unparsable:"+errClass(core.Outcome{Err: perr}), "honest quote (%s) does not parse: %v", w.Describe(), perr)
		return
	}
	r.State("auth=%s extra=%v nul=%v levels=%d match=%d mod=%v modlvl=%d spread=%v perm=%v", lenBucket(len(w.Quote.Auth)), len(w.Quote.Extra) > 0,
		len(w.Quote.Chain) > 0 && w.Quote.Chain[len(w.Quote.Chain)-1] == 0, len(w.Tcb.Levels), w.LevelIdx, w.P.Tee[1] != 0, w.ModLevelIdx, cfg.SpreadTimes, w.P.Ext.TopOrder != nil)
	if w.P.Tee[1] != 0 {
		r.Probe("module_branch")
	}
	if w.LevelIdx > 0 {
		r.Probe("matching_level_not_first")
	}
	if w.SerialCoincidence {
		r.Probe("crl_lists_same_serial_of_another_issuer")
	}
	if len(w.Quote.Auth) == 65535 {
		r.Probe("auth_65535")
	}
	for level := O0; level <= O2; level++ {
		for form := 0; form < 3; form++ {
			var o core.Outcome
			switch form {
			case 0:
				o = verifyRaw(raw, worldOpts(w, level))
			case 1:
				o = verifyMsg(parsed, worldOpts(w, level))
			case 2:
				o = verifyMsg(built, worldOpts(w, level))
			}
			r.Eval()
			r.Eventf("level=%s form=%d -> %s", optNames[level], form, errClass(o))
			if !o.Accepted() {
				r.Violate(fmt.Sprintf("C11:honest-rejected:%s:%s", optNames[level], errClass(o)),
					"honest in-date world (%s) rejected at level %s, form %d: %s", w.Describe(), optNames[level], form, o.ErrText())
			}
		}
	}
	r.Sample("honest world %s: accepted at base / collateral / collateral+revocation in raw, parsed and field-built form", w.Describe())
	if r.Index%16 == 5 {
		// the embedded-root clause once more, now AFTER verifications under a private pool in the same process: what
		// the library keeps of its embedded root is not what an earlier caller trusted
		c11Samples(r)
		r.Probe("intel_samples_after_verifications_under_a_private_pool")
	}

	// One options value used at a rising checking level (a long-lived verifier that switches
	// revocation checking on): every call must still accept the honest quote.
	{
		lv := worldOpts(w, O0)
		for _, level := range []int{O0, O1, O2, O1, O2} {
			lv.GetCollateral, lv.CheckRevocations = level >= O1, level == O2
			o := verifyRaw(raw, lv)
			r.Eval()
			if !o.Accepted() {
				r.Violate("C11:honest-rejected-after-level-change:"+errClass(o), "honest quote rejected at level %s through an options value that had been used at other levels before: %s", optNames[level], o.ErrText())
				break
			}
		}
		r.Probe("level_raised_on_shared_options")
	}

	// Recovery (bounded liveness): after faulted verifications stop, the very next
	// verification of the honest quote succeeds — also through the SAME options value.
	shared := worldOpts(w, O2)
	nFaults := 1 + r.T.Draw(3)
	for i := 0; i < nFaults; i++ {
		switch r.T.Draw(3) {
		case 0: // a corrupted quote on the wire
			bad := append([]byte(nil), raw...)
			pos := r.T.Draw(632)
			bad[pos] ^= 1 << r.T.Draw(8)
			o := verifyRaw(bad, shared)
			r.Fault("wire_bitflip", true)
			r.Eventf("recovery: faulted verification (bit flip @%d) -> %s", pos, errClass(o))
		case 1: // the collateral endpoint is down
			ep := w.PCS.QE
			w.PCS.QE = &world.Endpoint{Err: fmt.Errorf("connection reset")}
			o := verifyRaw(raw, shared)
			w.PCS.QE = ep
			r.Fault("pcs_transport_error", !o.Accepted())
			r.Eventf("recovery: faulted verification (QE endpoint down) -> %s", errClass(o))
		case 2: // clock far in the future
			keep := shared.Now
			shared.Now = timeSet([5]time.Time{w.Epoch.AddDate(40, 0, 0), w.Epoch.AddDate(40, 0, 0), w.Epoch.AddDate(40, 0, 0), w.Epoch.AddDate(40, 0, 0), w.Epoch.AddDate(40, 0, 0)})
			o := verifyRaw(raw, shared)
			shared.Now = keep
			r.Fault("clock_jump_forward", !o.Accepted())
			r.Eventf("recovery: faulted verification (clock +40y) -> %s", errClass(o))
		}
	}
	o := verifyRaw(raw, shared)
	r.Eval()
	r.Probe("recovery_after_faults")
	if !o.Accepted() {
		r.Violate("C11:no-recovery:"+errClass(o), "after %d faulted verifications through one options value, the honest quote is still rejected: %s", nFaults, o.ErrText())
	}
	// the same options value then serves another honest platform (its own PKI, collateral and PCS) with
	// collateral checking, and after that the first platform's quote again without: each is accepted
	if r.T.Bool() {
		w2 := world.NewWorld(r.T, world.Cfg{Processor: 1, AuthLen: 0, NetLat: -1})
		shared.Getter, shared.TrustedRoots, shared.Now = w2.PCS, w2.Pool, timeSet(w2.Times)
		shared.GetCollateral, shared.CheckRevocations = true, r.T.Bool()
		o2 := verifyRaw(w2.Quote.Bytes(), shared)
		shared.Getter, shared.TrustedRoots, shared.Now = w.PCS, w.Pool, timeSet(w.Times)
		shared.GetCollateral, shared.CheckRevocations = false, false
		o1 := verifyRaw(raw, shared)
		r.Eval()
		r.Probe("options_value_serves_a_second_platform")
		if !o2.Accepted() {
			r.Violate("C11:honest-rejected-second-platform:"+errClass(o2), "an options value that had served one honest platform rejects the honest quote of a second one (with collateral): %s", o2.ErrText())
		}
		if !o1.Accepted() {
			r.Violate("C11:honest-rejected-after-serving-another-platform:"+errClass(o1), "an options value that had just verified another platform's quote with collateral rejects the first platform's honest quote without collateral checking: %s", o1.ErrText())
		}
	}
}

func lenBucket(n int) string {
	switch {
	case n == 0:
		return "0"
	case n < 32:
		return "<32"
	case n == 32:
		return "32"
	case n < 256:
		return "<256"
	case n < 65535:
		return "<65535"
	default:
		return "65535"
	}
}

// c11Samples: the repository's genuine Intel quotes under the embedded root.
func c11Samples(r *core.Run) {
	ref := time.Date(2023, 7, 1, 1, 0, 0, 0, time.UTC) // the suite's reference instant
	ts := [5]time.Time{ref, ref, ref, ref, ref}
	// Only the base level: the recorded collateral in testing/testdata is newer than the quote's
	// TCB (the repo's own TestNegativeRawQuoteVerifyWithCollateral documents the mismatch).
	for level := O0; level <= O0; level++ {
		o := verifyRaw(testdata.RawQuote, mkOpts(level, tdxtesting.TestGetter, nil, ts))
		r.Eval()
		r.Eventf("intel sample quote level=%s -> %s", optNames[level], errClass(o))
		r.State("intel-sample %s", optNames[level])
		if !o.Accepted() {
			r.Violate("C11:intel-sample-rejected:"+optNames[level], "testing/testdata sample quote rejected under the embedded root at 2023-07-01, level %s: %s", optNames[level], o.ErrText())
		}
	}
	r.Probe("intel_sample_quote")
	b, err := os.ReadFile(filepath.Join(repoDir(), "testing/testdata/ccel/cos-113-tdx-quote.dat"))
	if err != nil {
		r.Eventf("cos-113 quote not readable: %v", err)
		return
	}
	q, err := abi.QuoteToProto(b)
	if err != nil {
		r.Violate("C11:cos113-unparsable", "cos-113 sample quote does not parse: %v", err)
		return
	}
	chain, err := verify.ExtractChainFromQuote(q)
	if err != nil {
		r.Violate("C11:cos113-chain", "cos-113 sample quote chain: %v", err)
		return
	}
	at := chain.PCKCertificate.NotBefore.Add(24 * time.Hour)
	o := verifyMsg(q, mkOpts(O0, &failGetter{}, nil, [5]time.Time{at, at, at, at, at}))
	r.Eval()
	r.State("cos113-sample base")
	r.Eventf("cos-113 sample quote at %s -> %s", at.Format(time.RFC3339), errClass(o))
	if !o.Accepted() {
		r.Violate("C11:cos113-rejected", "cos-113 sample quote rejected under the embedded root one day after its PCK certificate's notBefore: %s", o.ErrText())
	}
	r.Sample("Intel sample quotes (tdx_prod_quote_SPR_E4.dat at 2023-07-01 with the recorded collateral; cos-113-tdx-quote.dat at %s) accepted under the embedded root", at.Format("2006-01-02"))
}

func init() {
	register(&core.Check{
		ID:    "C11",
		Level: "exploration",
		Rule: "run 0: the repository's two Intel sample quotes under the embedded root; every other run: one honest world from the tape (fresh PKI, platform, quote, TCB Info with the matching UpToDate level at a tape-chosen position, optional TDX-module branch, QE identity, CRLs of unrelated serials; auth-data length in {0,1,31,32,33,255,4096,65535,random}, optional extra bytes / trailing NUL / permuted SGX extension / five distinct instants; issuer-chain headers in one of three equivalent URL encodings (%20, form encoding with +, lower-case hex); quote fields coinciding as on real TDs; authorityKeyIdentifier in key-id / absent / issuer+serial form) verified at 3 option levels x 3 quote forms, then a recovery phase: 1-3 faulted verifications (wire bit flip, endpoint down, clock +40y) through one shared options value followed by the honest quote, then (half of the runs) a second honest platform with collateral and the first one again without, all through that options value. " +
			"distinct = (auth bucket, extra, NUL, #levels, match index, module branch, module level, spread times, permuted ext)",
		Assumptions: []string{
			"Processor-CA chains are outside the claim (the code accepts only the Platform CA name; the property does not say a Processor-CA quote must be accepted)",
			"the stub CA/platform/PCS follow Intel's published formats; disagreement with the real decoders would show up here as a rejection",
		},
		RealStub: map[string]string{"verify.TdxQuote/RawTdxQuote": "real", "abi": "real", "pcs": "real", "Intel CA / platform+QE / PCS": "stub (world)", "clock": "Options.Now from the simulated clock", "SimpleHTTPSGetter": "not exercised"},
		Runs: func(tier string) int {
			if tier == "thorough" {
				return 20000
			}
			return 400
		},
		Run:       c11Run,
		MustProbe: []string{"module_branch", "matching_level_not_first", "auth_65535", "recovery_after_faults", "intel_sample_quote", "default_options_on_fake_clock", "crl_lists_same_serial_of_another_issuer", "options_value_serves_a_second_platform"},
	})
}
