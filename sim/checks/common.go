package checks

import (
	"crypto/x509"
	"fmt"
	"testing"
	"testing/synctest"
	"time"

	"github.com/google/go-tdx-guest/abi"
	pb "github.com/google/go-tdx-guest/proto/tdx"
	"github.com/google/go-tdx-guest/verify"
	"github.com/google/go-tdx-guest/verify/trust"
	"verif/sim/core"
	"verif/sim/world"
)

// Option levels of the verifier.
const (
	O0 = iota // signature + chain only
	O1        // + collateral
	O2        // + revocation
	O3        // revocation without collateral (must always fail)
)

var optNames = []string{"base", "collateral", "collateral+revocation", "revocation-only"}

func timeSet(t [5]time.Time) *verify.TimeSet {
	return &verify.TimeSet{PckCertChain: t[world.TPck], TcbInfo: t[world.TTcb], QeIdentity: t[world.TQE], PckCrl: t[world.TPckCrl], RootCaCrl: t[world.TRootCrl]}
}

// mkOpts builds a fresh verify.Options for a world at an option level.
func mkOpts(level int, getter trust.HTTPSGetter, pool *x509.CertPool, times [5]time.Time) *verify.Options {
	o := &verify.Options{Getter: getter, TrustedRoots: pool, Now: timeSet(times)}
	switch level {
	case O1:
		o.GetCollateral = true
	case O2:
		o.GetCollateral, o.CheckRevocations = true, true
	case O3:
		o.CheckRevocations = true
	}
	return o
}

// failGetter is used where no fetch may happen at all.
type failGetter struct{ calls []string }

func (f *failGetter) Get(url string) (map[string][]string, []byte, error) {
	f.calls = append(f.calls, url)
	return nil, nil, fmt.Errorf("no network in this configuration")
}

// BubbleTB is the *testing.T that testing/synctest bubbles hang off (set by the test binary's entry).
var BubbleTB *testing.T

// slowPCS returns the simulated PCS behind a getter if its network has latency.
func slowPCS(g trust.HTTPSGetter) *world.PCS {
	if p, ok := g.(*world.PCS); ok && p != nil && p.Latency != nil && BubbleTB != nil {
		return p
	}
	return nil
}

// callOnNet runs one library call under the panic catcher.  If the world's network has latency, the
// call runs inside a testing/synctest bubble: every fetch then takes simulated time on a fake clock,
// computation takes none, and goroutines the code under test may start are part of the bubble — so the
// order in which fetches and computations complete is decided by the latency profile (a function of the
// seed), not by the Go scheduler.  Goroutines left blocked when the call returns show up as the bubble's
// deadlock panic and are reported in the outcome.
func callOnNet(g trust.HTTPSGetter, f func() error) core.Outcome {
	p := slowPCS(g)
	if p == nil {
		return core.Call(f)
	}
	var out core.Outcome
	func() {
		defer func() {
			if pv := recover(); pv != nil {
				// the bubble's own complaint (goroutines still blocked after the call returned)
				out.Leak = fmt.Sprint(pv)
			}
		}()
		core.GlobalCount("fault.net:every_fetch_takes_simulated_time(calls_in_fake_clock_bubble).configured", 1)
		core.GlobalCount("fault.net:every_fetch_takes_simulated_time(calls_in_fake_clock_bubble).fired", 1)
		synctest.Test(BubbleTB, func(*testing.T) {
			p.InBubble = true
			defer func() { p.InBubble = false }()
			out = core.Call(f)
		})
	}()
	p.InBubble = false
	return out
}

// verifyRaw calls verify.RawTdxQuote under the panic catcher (on the world's network, see callOnNet).
func verifyRaw(raw []byte, o *verify.Options) core.Outcome {
	return callOnNet(o.Getter, func() error { return verify.RawTdxQuote(raw, o) })
}

// verifyMsg calls verify.TdxQuote under the panic catcher (on the world's network, see callOnNet).
func verifyMsg(q any, o *verify.Options) core.Outcome {
	return callOnNet(o.Getter, func() error { return verify.TdxQuote(q, o) })
}

// worldOpts is mkOpts for a world's own PCS, pool and times.
func worldOpts(w *world.World, level int) *verify.Options {
	var g trust.HTTPSGetter = &failGetter{}
	if w.PCS != nil {
		g = w.PCS
	}
	return mkOpts(level, g, w.Pool, w.Times)
}

// refTimes is the reference instant of the repository's sample data (2023-07-01).
func refTimes() [5]time.Time {
	ref := time.Date(2023, 7, 1, 1, 0, 0, 0, time.UTC)
	return [5]time.Time{ref, ref, ref, ref, ref}
}

// parseMsg parses raw bytes with the real parser.
func parseMsg(raw []byte) (*pb.QuoteV4, error) {
	m, err := abi.QuoteToProto(raw)
	if err != nil {
		return nil, err
	}
	q, ok := m.(*pb.QuoteV4)
	if !ok {
		return nil, fmt.Errorf("unexpected message type %T", m)
	}
	return q, nil
}

// faultyGetter wraps a getter and panics or fails at its failAt-th fetch (1-based).
type faultyGetter struct {
	inner  trust.HTTPSGetter
	failAt int
	mode   string // "panic" | "error"
	n      int
	caller uint64 // goroutine id of the caller of the verification (0: unknown)
}

func (g *faultyGetter) Get(url string) (map[string][]string, []byte, error) {
	g.n++
	if g.n == g.failAt {
		if g.mode == "panic" {
			if g.caller != 0 && core.GoID() != g.caller {
				// the code under test calls its getter from a goroutine of its own: a panic there would
				// not reach the caller but kill the process (simulator included); fail the fetch instead
				core.GlobalCount("getter_panic_turned_into_error_on_a_foreign_goroutine", 1)
				return nil, nil, fmt.Errorf("simulated getter failure at fetch %d (panic suppressed: not on the caller's goroutine)", g.n)
			}
			panic("simulated getter crash at fetch " + fmt.Sprint(g.n))
		}
		return nil, nil, fmt.Errorf("simulated getter failure at fetch %d", g.n)
	}
	return g.inner.Get(url)
}

// certOddity is a legal but unusual feature of a certificate that makes standard path validation stop
// early, before any path to an anchor is built.
type certOddity struct {
	name string
	edit func(*world.CertSpec)
}

func certOddities(at time.Time) []certOddity {
	past := world.Window{NotBefore: at.AddDate(-3, 0, 0), NotAfter: at.AddDate(0, 0, -30)}
	future := world.Window{NotBefore: at.AddDate(0, 0, 30), NotAfter: at.AddDate(8, 0, 0)}
	return []certOddity{
		{"expired", func(s *world.CertSpec) { s.Win = past }},
		{"not-yet-valid", func(s *world.CertSpec) { s.Win = future }},
		{"critical-extra-ext", func(s *world.CertSpec) { s.ExtraCritical = true }},
		{"unknown-critical-ext", func(s *world.CertSpec) { s.UnknownCritical = true }},
		{"eku-client-auth-only", func(s *world.CertSpec) { s.EKU = []x509.ExtKeyUsage{x509.ExtKeyUsageClientAuth} }},
		{"aki-absent", func(s *world.CertSpec) { s.AKI = world.AKIAbsent }},
		{"aki-issuer-serial", func(s *world.CertSpec) { s.AKI = world.AKIIssuerSerial }},
		{"key-usage-none", func(s *world.CertSpec) { s.KeyUsage = 0 }},
	}
}

// wallNow is "now" for the worlds that live at the wall clock (verification with Options.Now unset, the
// check tool): read once per process, so that a run and its re-execution in the same process build the
// very same world even if an hour boundary passes in between.
var wallNow = time.Now().UTC().Truncate(time.Hour)
