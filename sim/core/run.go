package core

import (
	"crypto/sha256"
	"encoding/hex"
	"fmt"
	"runtime/debug"
	"sort"
	"strings"
	"sync"
	"testing"
	"time"
)

// Violation is one observed breach of a property.
type Violation struct {
	Prop   string `json:"property"`
	Class  string `json:"class"`  // canonical, space-free; used for known-finding matching and shrinking
	Item   string `json:"item"`   // enumeration item within the run ("" if none)
	Detail string `json:"detail"` // human readable
}

// Run is the context of ONE simulated execution: one seed, one tape, one
// event log.  It is used by exactly one goroutine at a time.
type Run struct {
	Prop  string
	Tier  string
	Index int
	Seed  uint64
	T     *Tape
	TB    *testing.T // for testing/synctest bubbles
	// WallClockWorld: see Eventf
	WallClockWorld bool

	// Focus restricts enumerations inside the run to one item (replay/shrink).
	Focus string
	item  string

	KeepTrace bool
	Trace     []string
	nEvents   int
	digest    [32]byte

	Counters map[string]int64
	States   map[string]struct{}
	Viol     []Violation
	Samples  []string
	SimTime  time.Duration

	maxSamples int
}

func newRun(prop, tier string, idx int, seed uint64, t *Tape, tb *testing.T) *Run {
	return &Run{Prop: prop, Tier: tier, Index: idx, Seed: seed, T: t, TB: tb,
		Counters: map[string]int64{}, States: map[string]struct{}{}, maxSamples: 3}
}

// Thorough reports whether the thorough tier is running.
func (r *Run) Thorough() bool { return r.Tier == "thorough" }

// Eventf appends a semantic event to the run's log.  The log is hashed for the
// determinism self-test; logging never draws from the tape or reads a clock.
func (r *Run) Eventf(format string, a ...any) {
	s := fmt.Sprintf(format, a...)
	if r.WallClockWorld {
		// the world of this run is built around the wall clock's hour: certificate encodings (and with them
		// lengths and offsets that appear in event texts) differ from one hour to the next, so only the
		// NUMBER of events enters the digest; the texts are kept in the trace
		s2 := "event"
		r.nEvents++
		if r.KeepTrace && len(r.Trace) < 400 {
			r.Trace = append(r.Trace, s)
		}
		h := sha256.New()
		h.Write(r.digest[:])
		h.Write([]byte(s2))
		copy(r.digest[:], h.Sum(nil))
		return
	}
	h := sha256.New()
	h.Write(r.digest[:])
	h.Write([]byte(s))
	copy(r.digest[:], h.Sum(nil))
	r.nEvents++
	if r.KeepTrace && len(r.Trace) < 400 {
		r.Trace = append(r.Trace, s)
	}
}

// Digest is the hash of the event log so far.
func (r *Run) Digest() string { return hex.EncodeToString(r.digest[:8]) }

// Count adds d to a named counter ("eval", "fault.<kind>.configured",
// "fault.<kind>.fired", "probe.<name>", ...).
func (r *Run) Count(name string, d int64) { r.Counters[name] += d }

// Eval counts one evaluated case.
func (r *Run) Eval() { r.Counters["eval"]++ }

// Fault records that a fault kind was configured and whether it fired.
func (r *Run) Fault(kind string, fired bool) {
	r.Counters["fault."+kind+".configured"]++
	if fired {
		r.Counters["fault."+kind+".fired"]++
	}
}

// Probe records that a rare condition was provably reached.
func (r *Run) Probe(name string) { r.Counters["probe."+name]++ }

// State records a distinct non-trivial abstract state/case key.
func (r *Run) State(format string, a ...any) {
	r.States[fmt.Sprintf(format, a...)] = struct{}{}
}

// Sample keeps a few written-out cases for the evidence file.
func (r *Run) Sample(format string, a ...any) {
	if len(r.Samples) < r.maxSamples {
		r.Samples = append(r.Samples, fmt.Sprintf(format, a...))
	}
}

// Item opens an enumeration item; it returns false when a Focus is set and this
// is another item (so replay and shrinking execute only the failing one).
func (r *Run) Item(id string) bool {
	if r.Focus != "" && r.Focus != id {
		return false
	}
	r.item = id
	return true
}

// EndItem closes the current item.
func (r *Run) EndItem() { r.item = "" }

// Violate records a violation of the run's property.
func (r *Run) Violate(class, format string, a ...any) {
	r.ViolateProp(r.Prop, class, format, a...)
}

// ViolateProp records a violation for an explicit property id.
func (r *Run) ViolateProp(prop, class, format string, a ...any) {
	class = strings.ReplaceAll(class, " ", "_")
	d := fmt.Sprintf(format, a...)
	r.Eventf("VIOLATION %s %s item=%s", prop, class, r.item)
	r.Viol = append(r.Viol, Violation{Prop: prop, Class: class, Item: r.item, Detail: d})
}

// Outcome of calling repo code under the panic catcher.
type Outcome struct {
	Err      error
	Panicked bool
	PanicVal string
	Stack    string
	// Leak is set when the call ran in a fake-clock bubble and goroutines it started were still blocked
	// after it returned (the bubble's deadlock report).
	Leak string
}

// Accepted means: returned nil and did not panic.
func (o Outcome) Accepted() bool { return !o.Panicked && o.Err == nil }

// ErrText is a short description.
func (o Outcome) ErrText() string {
	if o.Panicked {
		return "PANIC: " + o.PanicVal
	}
	if o.Err == nil {
		return "<nil>"
	}
	s := o.Err.Error()
	if len(s) > 300 {
		s = s[:300] + "..."
	}
	return s
}

// Call runs f (a call into the code under test) and catches panics.
func Call(f func() error) (o Outcome) {
	defer func() {
		if p := recover(); p != nil {
			o.Panicked = true
			o.PanicVal = fmt.Sprint(p)
			st := string(debug.Stack())
			o.Stack = trimStack(st)
		}
	}()
	o.Err = f()
	return
}

// trimStack keeps the frames of the code under test (drops harness and runtime noise).
func trimStack(st string) string {
	lines := strings.Split(st, "\n")
	var out []string
	for i := 0; i+1 < len(lines); i++ {
		if strings.Contains(lines[i], "go-tdx-guest") || strings.Contains(lines[i+1], "/repo/") {
			out = append(out, strings.TrimSpace(lines[i]), strings.TrimSpace(lines[i+1]))
			i++
		}
		if len(out) >= 12 {
			break
		}
	}
	return strings.Join(out, " | ")
}

// PanicSite extracts "file.go:line" of the innermost /repo frame of a stack.
func PanicSite(stack string) string {
	for _, f := range strings.Split(stack, " | ") {
		if i := strings.Index(f, "/repo/"); i >= 0 {
			s := f[i+len("/repo/"):]
			if j := strings.IndexByte(s, ' '); j >= 0 {
				s = s[:j]
			}
			return s
		}
	}
	return "unknown"
}

// PanicFunc extracts the innermost function of the code under test from a stack.
func PanicFunc(stack string) string {
	for _, f := range strings.Split(stack, " | ") {
		if i := strings.Index(f, "go-tdx-guest/"); i >= 0 && !strings.Contains(f, "/repo/") {
			s := f[i+len("go-tdx-guest/"):]
			if j := strings.IndexByte(s, '('); j >= 0 {
				s = s[:j]
			}
			return s
		}
	}
	return "unknown"
}

// SortedKeys returns the sorted keys of a string-keyed map (never iterate maps
// in decision or logging paths).
func SortedKeys[V any](m map[string]V) []string {
	ks := make([]string, 0, len(m))
	for k := range m {
		ks = append(ks, k)
	}
	sort.Strings(ks)
	return ks
}

// Process-wide counters, for code that has no Run at hand (merged into the evidence counters; not part of
// any run's event log).
var (
	globalMu     sync.Mutex
	globalCounts = map[string]int64{}
)

// GlobalCount adds d to a process-wide counter.
func GlobalCount(name string, d int64) {
	globalMu.Lock()
	globalCounts[name] += d
	globalMu.Unlock()
}

func takeGlobalCounts() map[string]int64 {
	globalMu.Lock()
	defer globalMu.Unlock()
	out := map[string]int64{}
	for k, v := range globalCounts {
		out[k] = v
	}
	return out
}
