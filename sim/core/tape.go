// Package core is the simulator kernel: the choice tape, the run context,
// the batch driver, the shrinker, replay files, known findings and evidence.
package core

import (
	"encoding/binary"
	"math/rand/v2"
)

// Tape is the single source of every decision taken in a run.  While
// exploring it draws from a PCG stream seeded by the run seed and records the
// (reduced) values; while replaying it returns the recorded values (0 past the
// end).  Nothing else in a run may be random.
type Tape struct {
	rng    *rand.PCG
	vals   []uint64
	pos    int
	replay bool
}

// NewTape returns an exploring tape.
func NewTape(seed uint64) *Tape {
	return &Tape{rng: rand.NewPCG(seed, 0x9e3779b97f4a7c15^seed)}
}

// ReplayTape returns a tape that replays vals.
func ReplayTape(vals []uint64) *Tape {
	c := make([]uint64, len(vals))
	copy(c, vals)
	return &Tape{vals: c, replay: true}
}

// Values returns the values consumed so far (explore) or the whole tape (replay).
func (t *Tape) Values() []uint64 {
	if t.replay {
		n := t.pos
		if n > len(t.vals) {
			n = len(t.vals)
		}
		out := make([]uint64, n)
		copy(out, t.vals[:n])
		return out
	}
	out := make([]uint64, len(t.vals))
	copy(out, t.vals)
	return out
}

// Pos is the number of draws so far.
func (t *Tape) Pos() int { return t.pos }

func (t *Tape) next(n uint64) uint64 {
	if t.replay {
		var v uint64
		if t.pos < len(t.vals) {
			v = t.vals[t.pos]
		}
		t.pos++
		if n != 0 {
			v %= n
		}
		return v
	}
	v := t.rng.Uint64()
	if n != 0 {
		v %= n
	}
	t.vals = append(t.vals, v)
	t.pos++
	return v
}

// Draw returns a value in [0,n).  n<=1 consumes nothing and returns 0.
func (t *Tape) Draw(n int) int {
	if n <= 1 {
		return 0
	}
	return int(t.next(uint64(n)))
}

// U64 returns an arbitrary 64-bit value (one tape cell).
func (t *Tape) U64() uint64 { return t.next(0) }

// Chance is true with probability num/den.  A zero cell means "false", so
// shrinking removes optional behaviour.
func (t *Tape) Chance(num, den int) bool {
	if num <= 0 {
		return false
	}
	if num >= den {
		return true
	}
	return t.Draw(den) >= den-num
}

// Bool is a fair coin.
func (t *Tape) Bool() bool { return t.Draw(2) == 1 }

// Range returns a value in [lo,hi].
func (t *Tape) Range(lo, hi int) int {
	if hi <= lo {
		return lo
	}
	return lo + t.Draw(hi-lo+1)
}

// Bytes returns k pseudo-random bytes expanded from ONE tape cell, so that a
// tape stays short and shrinkable.
func (t *Tape) Bytes(k int) []byte {
	s := t.next(0)
	return Expand(s, k)
}

// Expand deterministically expands a 64-bit seed into k bytes.
func Expand(s uint64, k int) []byte {
	g := rand.NewPCG(s, s^0xda942042e4dd58b5)
	out := make([]byte, (k+7)/8*8)
	for i := 0; i < len(out); i += 8 {
		binary.LittleEndian.PutUint64(out[i:], g.Uint64())
	}
	return out[:k]
}

// Pick returns one of the given strings.
func (t *Tape) Pick(opts ...string) string { return opts[t.Draw(len(opts))] }

// Perm returns a permutation of 0..n-1 (Fisher–Yates on the tape).
func (t *Tape) Perm(n int) []int {
	p := make([]int, n)
	for i := range p {
		p[i] = i
	}
	for i := n - 1; i > 0; i-- {
		j := t.Draw(i + 1)
		p[i], p[j] = p[j], p[i]
	}
	return p
}

// SubSeed derives a per-run seed from the master seed, a property id and an index.
func SubSeed(master uint64, prop string, idx int) uint64 {
	h := uint64(1469598103934665603)
	mix := func(b byte) {
		h ^= uint64(b)
		h *= 1099511628211
	}
	var buf [8]byte
	binary.LittleEndian.PutUint64(buf[:], master)
	for _, b := range buf {
		mix(b)
	}
	for i := 0; i < len(prop); i++ {
		mix(prop[i])
	}
	binary.LittleEndian.PutUint64(buf[:], uint64(idx))
	for _, b := range buf {
		mix(b)
	}
	// final avalanche (splitmix64)
	h += 0x9e3779b97f4a7c15
	h = (h ^ (h >> 30)) * 0xbf58476d1ce4e5b9
	h = (h ^ (h >> 27)) * 0x94d049bb133111eb
	return h ^ (h >> 31)
}
