package core

import (
	"fmt"
	"runtime"
	"runtime/debug"
	"time"
)

// stallAfter is how long (wall clock) the scheduler waits for the running task to yield or finish.
const stallAfter = 20 * time.Second

// Sched is the cooperative scheduler: tasks are real goroutines, but exactly one
// holds the baton at any time and the choice of who runs next is the tape's (or a
// policy derived from it), so an interleaving is a pure function of the seed.
type Sched struct {
	tasks []*Task
	back  chan *Task
	cur   *Task
	Steps int
	// Stalled: see Run.
	Stalled bool
	// Foreign counts yield points reached by goroutines that are not tasks of this scheduler.
	Foreign int
	// Pick decides who runs after a yield / finish.  runnable holds task ids; cur is the
	// id of the task that just yielded (-1 if it finished).
	Pick func(step int, cur int, runnable []int, site string) int
	// OnSwitch is called (on the scheduler goroutine, no task running) at every
	// context switch and once at the end.
	OnSwitch func(step int, from, to int, site string)
	Log      func(format string, a ...any)
}

// Task is one simulated thread of control.
type Task struct {
	ID       int
	Name     string
	resume   chan struct{}
	done     bool
	site     string
	f        func()
	s        *Sched
	Panicked string
	gid      uint64
}

// GoID returns the current goroutine's id (exported for seams that must know whether they run on the caller's goroutine).
func GoID() uint64 { return goid() }

// goid returns the current goroutine's id (parsed from the stack header; used only at scheduling points).
func goid() uint64 {
	var buf [64]byte
	n := runtime.Stack(buf[:], false)
	// "goroutine 123 [running]:"
	var id uint64
	for _, c := range buf[len("goroutine "):n] {
		if c < '0' || c > '9' {
			break
		}
		id = id*10 + uint64(c-'0')
	}
	return id
}

// NewSched returns a scheduler whose choices come from pick.
func NewSched() *Sched { return &Sched{back: make(chan *Task)} }

// Go registers a task (before Run).
func (s *Sched) Go(name string, f func()) *Task {
	t := &Task{ID: len(s.tasks), Name: name, resume: make(chan struct{}), f: f, s: s}
	s.tasks = append(s.tasks, t)
	return t
}

// Yield hands the baton back to the scheduler; it returns when the task is chosen again.
// It must only be called from a task's own goroutine.  Outside Run it is a no-op.
func (s *Sched) Yield(site string) {
	t := s.cur
	if t == nil {
		return
	}
	if goid() != t.gid {
		// a goroutine the code under test started itself reached a yield point: it is not one of the
		// scheduler's tasks and holds no baton; let it run on (counted, the run is no longer exactly
		// replayable — reported in the evidence, never as a verdict)
		s.Foreign++
		return
	}
	t.site = site
	s.back <- t
	<-t.resume
}

// Current returns the id of the running task (-1 outside Run).
func (s *Sched) Current() int {
	if s.cur == nil {
		return -1
	}
	return s.cur.ID
}

// Run executes all tasks to completion under the scheduling policy.
func (s *Sched) Run() {
	for _, t := range s.tasks {
		t := t
		go func() {
			t.gid = goid()
			<-t.resume
			defer func() {
				if p := recover(); p != nil {
					t.Panicked = fmt.Sprintf("%v | %s", p, trimStack(string(debug.Stack())))
				}
				t.done = true
				t.site = "exit"
				s.back <- t
			}()
			t.f()
		}()
	}
	cur := -1
	site := "start"
	for {
		var runnable []int
		for _, t := range s.tasks {
			if !t.done {
				runnable = append(runnable, t.ID)
			}
		}
		if len(runnable) == 0 {
			break
		}
		next := runnable[0]
		if s.Pick != nil {
			next = s.Pick(s.Steps, cur, runnable, site)
		}
		if next != cur && s.OnSwitch != nil {
			s.OnSwitch(s.Steps, cur, next, site)
		}
		if next != cur && s.Log != nil {
			s.Log("switch step=%d %d->%d at %s", s.Steps, cur, next, site)
		}
		s.Steps++
		t := s.tasks[next]
		s.cur = t
		t.resume <- struct{}{}
		var y *Task
		select {
		case y = <-s.back:
		case <-time.After(stallAfter):
			// the task neither yielded nor finished: it is blocked on something that is not a yield point (a
			// lock, a channel, a wait group of the code under test) which only a PARKED task could release.  A
			// cooperative scheduler cannot resolve that; the run is given up (counted, never a verdict) and
			// the goroutines are left behind.
			s.Stalled = true
			s.cur = nil
			return
		}
		s.cur = nil
		site = y.site
		if y.done {
			cur = -1
		} else {
			cur = y.ID
		}
	}
	if s.OnSwitch != nil {
		s.OnSwitch(s.Steps, cur, -1, "end")
	}
}
