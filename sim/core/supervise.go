package core

import (
	"bytes"
	"context"
	"encoding/json"
	"fmt"
	"os"
	"os/exec"
	"path/filepath"
	"sort"
	"strconv"
	"strings"
	"sync"
	"testing"
	"time"
)

// Process supervision.  A panic in a goroutine that the code under test started itself cannot be
// recovered by the caller: it kills the process, simulator included.  For a check whose property is
// "never a crash" that death is the violation, so such a check (Check.Isolate) runs its batch in a
// child process.  If the child dies of a Go panic / fatal error, or does not finish, the runs that
// were in flight are re-executed one by one in fresh processes; a run that kills (or hangs) its own
// process again is reported with a replay file of mode "crash", which replays the same way.

var progressMu sync.Mutex

// progress appends a marker to the supervisor's progress file (child side).
func progress(kind string, idx int) {
	p := os.Getenv("VERIF_PROGRESS")
	if p == "" {
		return
	}
	progressMu.Lock()
	defer progressMu.Unlock()
	f, err := os.OpenFile(p, os.O_APPEND|os.O_WRONLY|os.O_CREATE, 0o644)
	if err != nil {
		return
	}
	fmt.Fprintf(f, "%s %d\n", kind, idx)
	f.Close()
}

type childResult struct {
	out      string
	code     int
	timedOut bool
}

func runChild(c *Check, env []string, limit time.Duration) childResult {
	ctx, cancel := context.WithTimeout(context.Background(), limit)
	defer cancel()
	cmd := exec.CommandContext(ctx, os.Args[0], "-test.run", "^TestVerif$", "-test.timeout", "0")
	cmd.Env = append(append(os.Environ(), "VERIF_CHILD=1", "VERIF_PROP="+c.ID, "VERIF_REPLAY=", "VERIF_TRACE=", "VERIF_DIGEST_ONLY="), env...)
	var buf bytes.Buffer
	cmd.Stdout, cmd.Stderr = &buf, &buf
	err := cmd.Run()
	res := childResult{out: buf.String()}
	if ctx.Err() == context.DeadlineExceeded {
		res.timedOut = true
		res.code = -1
		return res
	}
	if ee, ok := err.(*exec.ExitError); ok {
		res.code = ee.ExitCode()
	} else if err != nil {
		res.code = -2
	}
	return res
}

// crashSignature extracts "what died where" from a Go crash report.
func crashSignature(out string) (string, string) {
	lines := strings.Split(out, "\n")
	msg := ""
	for _, l := range lines {
		if strings.HasPrefix(l, "panic:") || strings.HasPrefix(l, "fatal error:") {
			msg = strings.TrimSpace(l)
			break
		}
	}
	if msg == "" {
		return "", ""
	}
	site := "unknown"
	for _, l := range lines {
		l = strings.TrimSpace(l)
		if i := strings.Index(l, "go-tdx-guest/"); i >= 0 && strings.Contains(l, "(") && !strings.Contains(l, ".go:") {
			site = l[i+len("go-tdx-guest/"):]
			if j := strings.IndexByte(site, '('); j >= 0 {
				site = site[:j]
			}
			// closures started as goroutines are named f.func1: keep the enclosing function
			for strings.Contains(site, ".func") {
				site = site[:strings.LastIndex(site, ".func")]
			}
			break
		}
	}
	return msg, site
}

func completedNormally(out string, c *Check) bool {
	return strings.Contains(out, "\nproperty="+c.ID+" tier=") || strings.Contains(out, "HARNESS-ERROR")
}

// supervise runs the batch in a child and turns a dead child into violations.
func supervise(c *Check, tier string, master uint64) int {
	start := time.Now()
	pf, err := os.CreateTemp("", "verif-progress-")
	if err != nil {
		fmt.Println("HARNESS-ERROR: cannot create progress file:", err)
		return ExitHarness
	}
	pf.Close()
	defer os.Remove(pf.Name())
	budget := time.Duration(envInt("VERIF_BUDGET_S", map[string]int{"quick": 240, "thorough": 3000}[tier])) * time.Second
	res := runChild(c, []string{"VERIF_PROGRESS=" + pf.Name()}, 2*budget+15*time.Minute)
	if !res.timedOut && completedNormally(res.out, c) && (res.code == ExitOK || res.code == ExitViolation || res.code == ExitHarness) {
		fmt.Print(res.out)
		return res.code
	}
	if c.RetrySafe {
		// Not a check of crash-freedom: the death of the process (typically one of the simulator's own harsher
		// faults — a getter that panics — landing on a goroutine the code under test started) tells nothing about
		// this property.  Run the batch once more without the fault kinds that can kill the process.
		msg, site := crashSignature(res.out)
		// (one worker: state that the code under test shares process-wide must not leak from one run's fake-clock
		// bubble into another's, which the runtime punishes with a fatal error)
		safe := runChild(c, []string{"VERIF_SAFE=1", "VERIF_WORKERS=1"}, 2*budget+15*time.Minute)
		if !safe.timedOut && completedNormally(safe.out, c) {
			fmt.Printf("NOTE: the first batch process died (%s at %s); the batch was repeated without the fault kinds that can kill the process\n", msg, site)
			fmt.Print(safe.out)
			return safe.code
		}
		fmt.Printf("HARNESS-ERROR: the batch process died twice (%s at %s), also without the process-killing fault kinds:\n%s\n", msg, site, tail(safe.out, 1500))
		return ExitHarness
	}
	// The child died (or never finished).  Which runs were in flight?
	started, ended := map[int]bool{}, map[int]bool{}
	if b, err := os.ReadFile(pf.Name()); err == nil {
		for _, l := range strings.Split(string(b), "\n") {
			f := strings.Fields(l)
			if len(f) != 2 {
				continue
			}
			i, _ := strconv.Atoi(f[1])
			if f[0] == "S" {
				started[i] = true
			} else {
				ended[i] = true
			}
		}
	}
	var inflight []int
	for i := range started {
		if !ended[i] {
			inflight = append(inflight, i)
		}
	}
	sort.Ints(inflight)
	msg, site := crashSignature(res.out)
	fmt.Printf("VERIF_SEED=%d property=%s tier=%s\n", master, c.ID, tier)
	fmt.Printf("NOTE: the process running the batch %s (%s at %s); re-executing the %d runs that were in flight, each in its own process\n",
		tern(res.timedOut, "did not finish", fmt.Sprintf("died with exit status %d", res.code)), msg, site, len(inflight))
	known := loadKnownFindings()
	exit := ExitHarness
	seen := map[string]bool{}
	var knownPrinted []string
	newViol := 0
	for _, i := range inflight {
		one := runChild(c, []string{fmt.Sprintf("VERIF_ONLY=%d", i), "VERIF_TIER=" + tier, fmt.Sprintf("VERIF_SEED=%d", master)}, 3*time.Minute)
		class, detail := "", ""
		if one.timedOut {
			class = c.ID + ":process-hang"
			detail = fmt.Sprintf("run %d alone in a fresh process did not finish within 3 minutes", i)
		} else if m, s := crashSignature(one.out); m != "" && !strings.Contains(one.out, "ONLY-DONE") {
			class = c.ID + ":process-crash:" + s
			detail = fmt.Sprintf("run %d alone in a fresh process killed the process: %s at %s (a panic outside the calling goroutine cannot be recovered by the caller) :: %s", i, m, s, firstTraceLines(one.out, 8))
		}
		if class == "" || seen[class] {
			continue
		}
		seen[class] = true
		matched := false
		for _, k := range known {
			if k.prop == c.ID && k.class == class {
				line := fmt.Sprintf("KNOWN-FINDING: property=%s %s [class=%s]", k.prop, k.text, k.class)
				fmt.Println(line)
				knownPrinted = append(knownPrinted, line)
				matched = true
			}
		}
		if matched {
			if exit == ExitHarness {
				exit = ExitOK
			}
			continue
		}
		dir := filepath.Join(verifDir(), "replays")
		os.MkdirAll(dir, 0o755)
		path := filepath.Join(dir, fmt.Sprintf("%s-%d-%d-%s-crash.json", c.ID, master, i, shortHash(class)))
		rf := ReplayFile{Property: c.ID, Class: class, Detail: detail, Tier: tier, MasterSeed: master, RunIndex: i, RunSeed: SubSeed(master, c.ID, i),
			CrashMode: true, HowTo: "/verif/bin/vcheck replay " + path}
		b, _ := json.MarshalIndent(rf, "", " ")
		if err := os.WriteFile(path, b, 0o644); err != nil {
			fmt.Println("HARNESS-ERROR: cannot write replay file:", err)
			return ExitHarness
		}
		fmt.Printf("VIOLATION property=%s replay=%s\n  class=%s item=\n  %s\n", c.ID, path, class, detail)
		newViol++
		exit = ExitViolation
	}
	if exit == ExitHarness {
		fmt.Printf("HARNESS-ERROR: the batch process died but no single run reproduces it in a fresh process; its last output:\n%s\n", tail(res.out, 2000))
		return ExitHarness
	}
	counters := map[string]int64{"runs_in_flight_when_the_process_died": int64(len(inflight))}
	writeEvidence(c, tier, master, c.Runs(tier), len(ended), counters, map[string]struct{}{}, []string{"the batch process died; in-flight runs were re-executed in fresh processes"}, 0, "", 0, knownPrinted, newViol, newViol, nil, time.Since(start).Seconds())
	fmt.Printf("property=%s tier=%s runs=%d/%d evaluations=0 distinct=0 violations(new)=%d known=%d batch_digest=- wall=%.1fs\n", c.ID, tier, len(ended), c.Runs(tier), newViol, len(knownPrinted), time.Since(start).Seconds())
	return exit
}

func firstTraceLines(out string, n int) string {
	var keep []string
	on := false
	for _, l := range strings.Split(out, "\n") {
		if strings.HasPrefix(l, "panic:") || strings.HasPrefix(l, "fatal error:") {
			on = true
		}
		if on && strings.TrimSpace(l) != "" {
			keep = append(keep, strings.TrimSpace(l))
			if len(keep) >= n {
				break
			}
		}
	}
	return strings.Join(keep, " | ")
}

func tern(c bool, a, b string) string {
	if c {
		return a
	}
	return b
}

// onlyMain is the child side of the one-run re-execution.
func onlyMain(c *Check, tier string, master uint64, idx int, tb *testing.T) int {
	seed := SubSeed(master, c.ID, idx)
	res, _ := execRun(c, tier, idx, seed, NewTape(seed), "", false, tb)
	fmt.Printf("ONLY-DONE %d violations=%d %s\n", idx, len(res.viol), res.crashed)
	return ExitOK
}

// replayCrash replays a crash-mode file: the run is executed in a child, which must die the same way.
func replayCrash(c *Check, rf *ReplayFile, path string) int {
	one := runChild(c, []string{fmt.Sprintf("VERIF_ONLY=%d", rf.RunIndex), "VERIF_TIER=" + rf.Tier, fmt.Sprintf("VERIF_SEED=%d", rf.MasterSeed)}, 3*time.Minute)
	class := ""
	if one.timedOut {
		class = c.ID + ":process-hang"
	} else if m, s := crashSignature(one.out); m != "" && !strings.Contains(one.out, "ONLY-DONE") {
		class = c.ID + ":process-crash:" + s
		fmt.Println("  |", firstTraceLines(one.out, 8))
	}
	if class == rf.Class {
		fmt.Printf("VIOLATION property=%s replay=%s\n  class=%s item=\n  %s\n", rf.Property, path, rf.Class, rf.Detail)
		return ExitViolation
	}
	fmt.Printf("replay did not reproduce class=%s (the run's process ended with: %q)\n", rf.Class, class)
	return ExitOK
}

// Safe reports whether fault kinds that can kill the whole process must be left out (second attempt of a
// supervised batch).
func Safe() bool { return os.Getenv("VERIF_SAFE") != "" }
