package core

import (
	"bufio"
	"crypto/sha256"
	"encoding/hex"
	"encoding/json"
	"fmt"
	"os"
	"os/exec"
	"path/filepath"
	"runtime"
	"sort"
	"strconv"
	"strings"
	"sync"
	"testing"
	"time"
)

// Check is one property's simulation: a workload + oracle executed per run.
type Check struct {
	ID          string
	Level       string // exploration | fault_enumeration
	Rule        string // how cases are generated and what makes one distinct / non-trivial
	Assumptions []string
	RealStub    map[string]string // component -> "real" | "stub" | "not exercised"
	Exhaustive  bool              // the stated grid is enumerated completely in every tier
	Runs        func(tier string) int
	Run         func(r *Run)
	// Isolate: run the batch in a child process, so that a death of the process (a panic in a goroutine the
	// code under test started, a runaway loop) is observed and attributed to a run (see supervise.go).
	Isolate bool
	// RetrySafe (with Isolate): the check is not about crash-freedom; if the batch process dies, repeat the batch
	// with core.Safe() true instead of attributing the death to a run.
	RetrySafe bool
	// MustProbe lists probes that have to be > 0 in a thorough batch; a probe
	// stuck at zero is a harness failure (exit 2), never a violation.
	MustProbe []string
	// Serial forces one worker (the check uses process-global state such as a yield hook).
	Serial bool
	// SimTimeNote explains what "simulated time" means for this check.
	SimTimeNote string
}

// Exit codes.
const (
	ExitOK        = 0
	ExitViolation = 1
	ExitHarness   = 2
)

// ReplayFile is what a violation is reported as.
type ReplayFile struct {
	Property   string   `json:"property"`
	Class      string   `json:"class"`
	Detail     string   `json:"detail"`
	Tier       string   `json:"tier"`
	MasterSeed uint64   `json:"master_seed"`
	RunIndex   int      `json:"run_index"`
	RunSeed    uint64   `json:"run_seed"`
	Focus      string   `json:"focus_item"`
	Tape       []uint64 `json:"tape"`
	OrigTape   int      `json:"original_tape_len"`
	ShrinkExec int      `json:"shrink_executions"`
	Trace      []string `json:"minimised_trace"`
	HowTo      string   `json:"how_to_replay"`
	// PrefixRuns: execute runs 0..RunIndex of the batch sequentially (each from its own seed) and
	// look for the violation in the last one — for violations that need state left by earlier runs.
	PrefixRuns bool `json:"prefix_runs,omitempty"`
	// CrashMode: the run kills its own process (a panic outside the calling goroutine) or never finishes;
	// replayed by executing run RunIndex in a child process and looking at how that process ends.
	CrashMode bool `json:"crash_mode,omitempty"`
}

type finding struct {
	prop, class, text string
}

func verifDir() string {
	if d := os.Getenv("VERIF_DIR"); d != "" {
		return d
	}
	return "/verif"
}

func loadKnownFindings() []finding {
	f, err := os.Open(filepath.Join(verifDir(), "known_findings.txt"))
	if err != nil {
		return nil
	}
	defer f.Close()
	var out []finding
	sc := bufio.NewScanner(f)
	for sc.Scan() {
		line := strings.TrimSpace(sc.Text())
		if !strings.HasPrefix(line, "finding:") {
			continue // "fixed:" lines and comments suppress nothing
		}
		rest := strings.Fields(strings.TrimPrefix(line, "finding:"))
		var fd finding
		var words []string
		for _, w := range rest {
			switch {
			case strings.HasPrefix(w, "property=") && fd.prop == "":
				fd.prop = strings.TrimPrefix(w, "property=")
			case strings.HasPrefix(w, "class=") && fd.class == "":
				fd.class = strings.TrimPrefix(w, "class=")
			default:
				words = append(words, w)
			}
		}
		fd.text = strings.Join(words, " ")
		if fd.prop != "" && fd.class != "" {
			out = append(out, fd)
		}
	}
	return out
}

func envInt(name string, def int) int {
	if s := os.Getenv(name); s != "" {
		if v, err := strconv.Atoi(s); err == nil {
			return v
		}
	}
	return def
}

func envU64(name string, def uint64) uint64 {
	if s := os.Getenv(name); s != "" {
		if v, err := strconv.ParseUint(s, 10, 64); err == nil {
			return v
		}
		if v, err := strconv.ParseInt(s, 10, 64); err == nil {
			return uint64(v)
		}
	}
	return def
}

type runResult struct {
	idx      int
	seed     uint64
	digest   string
	viol     []Violation
	counters map[string]int64
	states   map[string]struct{}
	samples  []string
	tape     []uint64
	simTime  time.Duration
	crashed  string
}

func execRun(c *Check, tier string, idx int, seed uint64, tape *Tape, focus string, keepTrace bool, tb *testing.T) (res runResult, run *Run) {
	r := newRun(c.ID, tier, idx, seed, tape, tb)
	r.Focus = focus
	r.KeepTrace = keepTrace
	func() {
		defer func() {
			if p := recover(); p != nil {
				// A panic escaping the check itself is a harness bug, not a verdict.
				res.crashed = fmt.Sprintf("harness panic in run %d: %v\n%s", idx, p, debugStack())
			}
		}()
		c.Run(r)
	}()
	res.idx, res.seed = idx, seed
	res.digest = r.Digest()
	res.viol = r.Viol
	res.counters = r.Counters
	res.states = r.States
	res.samples = r.Samples
	res.tape = tape.Values()
	res.simTime = r.SimTime
	return res, r
}

func debugStack() string {
	buf := make([]byte, 1<<14)
	n := runtime.Stack(buf, false)
	return string(buf[:n])
}

// Main runs a check according to the environment and returns the exit code.
func Main(c *Check, tb *testing.T) int {
	start := time.Now()
	tier := os.Getenv("VERIF_TIER")
	if tier != "thorough" {
		tier = "quick"
	}
	master := envU64("VERIF_SEED", 1)
	if rp := os.Getenv("VERIF_REPLAY"); rp != "" {
		return replayMain(c, rp, tb)
	}
	if os.Getenv("VERIF_CHILD") != "" {
		if only := os.Getenv("VERIF_ONLY"); only != "" {
			i, _ := strconv.Atoi(only)
			return onlyMain(c, tier, master, i, tb)
		}
	} else if c.Isolate && os.Getenv("VERIF_DIGEST_ONLY") == "" && os.Getenv("VERIF_TRACE") == "" {
		return supervise(c, tier, master)
	}
	fmt.Printf("VERIF_SEED=%d property=%s tier=%s\n", master, c.ID, tier)
	if ds := os.Getenv("VERIF_DIGEST_ONLY"); ds != "" {
		// child mode of the determinism re-check: execute one run index, print its digest
		i, _ := strconv.Atoi(ds)
		seed := SubSeed(master, c.ID, i)
		res, _ := execRun(c, tier, i, seed, NewTape(seed), "", false, tb)
		fmt.Printf("RUN-DIGEST %s\n", res.digest)
		return ExitOK
	}
	if ts := os.Getenv("VERIF_TRACE"); ts != "" {
		// debugging aid: execute one run index and print its event log
		i, _ := strconv.Atoi(ts)
		seed := SubSeed(master, c.ID, i)
		res, run := execRun(c, tier, i, seed, NewTape(seed), "", true, tb)
		for _, l := range run.Trace {
			fmt.Println("  |", l)
		}
		fmt.Printf("run %d digest=%s violations=%d tape_len=%d %s\n", i, res.digest, len(res.viol), len(res.tape), res.crashed)
		return ExitOK
	}
	if os.Getenv("VERIF_RACE") != "" {
		return raceMain(c, tier, master, tb)
	}
	n := c.Runs(tier)
	if v := envInt("VERIF_RUNS", 0); v > 0 {
		n = v
	}
	workers := envInt("VERIF_WORKERS", runtime.NumCPU())
	if workers < 1 || c.Serial {
		workers = 1
	}
	budget := time.Duration(envInt("VERIF_BUDGET_S", map[string]int{"quick": 240, "thorough": 3000}[tier])) * time.Second

	results := make([]*runResult, n)
	var mu sync.Mutex
	next := 0
	var wg sync.WaitGroup
	for w := 0; w < workers; w++ {
		wg.Add(1)
		go func() {
			defer wg.Done()
			for {
				mu.Lock()
				i := next
				next++
				mu.Unlock()
				if i >= n || time.Since(start) > budget {
					return
				}
				seed := SubSeed(master, c.ID, i)
				progress("S", i)
				res, _ := execRun(c, tier, i, seed, NewTape(seed), "", false, tb)
				progress("E", i)
				results[i] = &res
			}
		}()
	}
	wg.Wait()

	// Aggregate in index order (deterministic).
	done := 0
	counters := map[string]int64{}
	states := map[string]struct{}{}
	var samples []string
	var simTime time.Duration
	batch := sha256.New()
	var allViol []struct {
		v   Violation
		res *runResult
	}
	for _, res := range results {
		if res == nil {
			continue
		}
		if res.crashed != "" {
			fmt.Println("HARNESS-ERROR:", res.crashed)
			return ExitHarness
		}
		done++
		for _, k := range SortedKeys(res.counters) {
			counters[k] += res.counters[k]
		}
		for k := range res.states {
			states[k] = struct{}{}
		}
		if len(samples) < 6 {
			samples = append(samples, res.samples...)
		}
		simTime += res.simTime
		batch.Write([]byte(res.digest))
		for _, v := range res.viol {
			allViol = append(allViol, struct {
				v   Violation
				res *runResult
			}{v, res})
		}
	}
	if done == 0 {
		fmt.Println("HARNESS-ERROR: no run completed")
		return ExitHarness
	}
	batchDigest := hex.EncodeToString(batch.Sum(nil)[:8])

	// Report violations: one per (property, class).  The first occurrence (lowest run index) is
	// minimised and replayed in a fresh process; if it does not reproduce there — which happens
	// when the code under test carries state from earlier calls — the whole run is replayed
	// instead of the single item, then other occurrences of the class are tried, and as a last
	// resort the batch prefix up to that run is replayed sequentially.
	known := loadKnownFindings()
	type occT struct {
		v   Violation
		res *runResult
	}
	var classOrder []string
	occs := map[string][]occT{}
	for _, e := range allViol {
		key := e.v.Prop + "|" + e.v.Class
		if _, ok := occs[key]; !ok {
			classOrder = append(classOrder, key)
		}
		if len(occs[key]) < 6 {
			occs[key] = append(occs[key], occT{e.v, e.res})
		}
	}
	var knownPrinted []string
	var unconfirmed []string
	newViolations := 0
	exit := ExitOK
	for _, key := range classOrder {
		first := occs[key][0]
		matched := false
		for _, k := range known {
			if k.prop == first.v.Prop && k.class == first.v.Class {
				line := fmt.Sprintf("KNOWN-FINDING: property=%s %s [class=%s]", k.prop, k.text, k.class)
				fmt.Println(line)
				knownPrinted = append(knownPrinted, line)
				matched = true
				break
			}
		}
		if matched {
			continue
		}
		newViolations++
		if newViolations > 3 {
			os.Setenv("VERIF_SHRINK_EXEC", "1") // many classes at once: minimise only the first three
		}
		confirmed := false
		for oi, o := range occs[key] {
			if oi > 0 && newViolations > 3 {
				break
			}
			path, code := reportViolation(c, tier, master, o.v, o.res, tb)
			if code == ExitViolation {
				fmt.Printf("VIOLATION property=%s replay=%s\n", o.v.Prop, path)
				fmt.Printf("  class=%s item=%s\n  %s\n", o.v.Class, o.v.Item, o.v.Detail)
				confirmed = true
				break
			}
		}
		if !confirmed {
			// state carried by the code under test from earlier runs: replay the batch prefix sequentially.  The
			// first occurrence may owe its state to a run that merely ran alongside it in the parallel batch, so
			// later occurrences are tried too.
			for oi, o := range occs[key] {
				if o.res.idx > 400 || oi >= 3 {
					break
				}
				if path, ok := reportPrefix(c, tier, master, o.v, o.res); ok {
					fmt.Printf("VIOLATION property=%s replay=%s\n", o.v.Prop, path)
					fmt.Printf("  class=%s item=%s (needs the preceding runs of the batch: state carried across calls)\n  %s\n", o.v.Class, o.v.Item, o.v.Detail)
					confirmed = true
					break
				}
			}
		}
		if confirmed {
			exit = ExitViolation
		} else {
			unconfirmed = append(unconfirmed, fmt.Sprintf("%s (run %d): %s", key, first.res.idx, first.v.Detail))
		}
	}
	for _, u := range unconfirmed {
		if exit == ExitViolation {
			fmt.Println("NOTE: observed in the batch but not reproducible from a replay file (state-dependent):", u)
		} else {
			fmt.Println("HARNESS-ERROR: violation observed in the batch but no replay reproduces it in a fresh process:", u)
		}
	}
	if exit == ExitOK && len(unconfirmed) > 0 {
		exit = ExitHarness
	}

	// Determinism re-check: re-execute a sample of runs and compare event-log digests.  A
	// mismatch inside this process can also come from state that the CODE UNDER TEST carries
	// from one call to the next (a process-wide cache, say); so a mismatching run is executed
	// once more in a fresh process: if that agrees with the original the harness is
	// deterministic and the batch stands; if not, exit 2.  When the batch already produced
	// reproducible violations the code under test is known to be broken and the re-check is
	// informational only.
	rechecks, mismatches, stateful := 0, 0, 0
	step := done / 6
	if step < 1 {
		step = 1
	}
	for i := 0; i < n && rechecks < 6; i += step {
		if results[i] == nil {
			continue
		}
		res2, _ := execRun(c, tier, i, results[i].seed, NewTape(results[i].seed), "", false, tb)
		rechecks++
		if res2.digest == results[i].digest {
			continue
		}
		if fresh, ok := freshDigest(c, tier, master, i); ok && fresh == results[i].digest {
			stateful++
			fmt.Printf("NOTE: run %d re-executed in this process gives another event log (%s vs %s) but a fresh process reproduces the original: the code under test carries state across calls\n", i, res2.digest, results[i].digest)
			continue
		}
		mismatches++
		fmt.Printf("HARNESS-ERROR: run %d (seed %d) is not deterministic: digest %s vs %s\n", i, results[i].seed, results[i].digest, res2.digest)
	}
	if mismatches > 0 && exit == ExitOK {
		exit = ExitHarness
	}
	_ = stateful

	// Probes that must have been reached in a thorough batch.
	var stuck []string
	if tier == "thorough" && done == n {
		for _, p := range c.MustProbe {
			if counters["probe."+p] == 0 {
				stuck = append(stuck, p)
			}
		}
	}

	wall := time.Since(start).Seconds()
	for k, v := range takeGlobalCounts() {
		counters[k] += v // includes the calls of the determinism re-check and of shrinking
	}
	writeEvidence(c, tier, master, n, done, counters, states, samples, simTime, batchDigest, rechecks, knownPrinted, newViolations, len(allViol), stuck, wall)
	fmt.Printf("property=%s tier=%s runs=%d/%d evaluations=%d distinct=%d violations(new)=%d known=%d batch_digest=%s wall=%.1fs\n",
		c.ID, tier, done, n, counters["eval"], len(states), newViolations, len(knownPrinted), batchDigest, wall)
	if len(stuck) > 0 && exit == ExitOK {
		fmt.Printf("HARNESS-ERROR: probes never reached in thorough batch: %s\n", strings.Join(stuck, ","))
		return ExitHarness
	}
	return exit
}

// freshDigest executes run i in a fresh process and returns the digest of its event log.
func freshDigest(c *Check, tier string, master uint64, i int) (string, bool) {
	cmd := exec.Command(os.Args[0], "-test.run", "^TestVerif$", "-test.timeout", "0")
	cmd.Env = append(os.Environ(), "VERIF_PROP="+c.ID, "VERIF_TIER="+tier, fmt.Sprintf("VERIF_SEED=%d", master), fmt.Sprintf("VERIF_DIGEST_ONLY=%d", i), "VERIF_REPLAY=", "VERIF_TRACE=")
	out, err := cmd.CombinedOutput()
	if err != nil {
		return "", false
	}
	for _, l := range strings.Split(string(out), "\n") {
		if strings.HasPrefix(l, "RUN-DIGEST ") {
			return strings.TrimSpace(strings.TrimPrefix(l, "RUN-DIGEST ")), true
		}
	}
	return "", false
}

func reportViolation(c *Check, tier string, master uint64, v Violation, res *runResult, tb *testing.T) (string, int) {
	path, code := reportViolationFocus(c, tier, master, v, res, tb)
	if code == ExitHarness && v.Item != "" {
		// The violation may need the run's earlier items to have happened first (state carried
		// by the code under test from call to call): replay the whole run instead of the item.
		fmt.Printf("NOTE: %s/%s does not reproduce from its item alone; replaying the whole run\n", v.Prop, v.Class)
		v2 := v
		v2.Item = ""
		return reportViolationFocus(c, tier, master, v2, res, tb)
	}
	return path, code
}

func reportViolationFocus(c *Check, tier string, master uint64, v Violation, res *runResult, tb *testing.T) (string, int) {
	tape, execs := shrink(c, tier, res.idx, res.seed, res.tape, v, tb)
	// Final traced execution of the minimised tape.
	_, run := execRun(c, tier, res.idx, res.seed, ReplayTape(tape), v.Item, true, tb)
	detail := v.Detail
	for _, v2 := range run.Viol {
		if v2.Prop == v.Prop && v2.Class == v.Class {
			detail = v2.Detail
			break
		}
	}
	dir := filepath.Join(verifDir(), "replays")
	os.MkdirAll(dir, 0o755)
	path := filepath.Join(dir, fmt.Sprintf("%s-%d-%d-%s.json", v.Prop, master, res.idx, shortHash(v.Class)))
	rf := ReplayFile{Property: v.Prop, Class: v.Class, Detail: detail, Tier: tier, MasterSeed: master, RunIndex: res.idx,
		RunSeed: res.seed, Focus: v.Item, Tape: tape, OrigTape: len(res.tape), ShrinkExec: execs, Trace: run.Trace,
		HowTo: "/verif/bin/vcheck replay " + path}
	b, _ := json.MarshalIndent(rf, "", " ")
	if err := os.WriteFile(path, b, 0o644); err != nil {
		fmt.Println("HARNESS-ERROR: cannot write replay file:", err)
		return path, ExitHarness
	}
	// Fresh-process replay must reproduce the same violation class.
	if os.Getenv("VERIF_NO_FRESH_REPLAY") == "" {
		cmd := exec.Command(os.Args[0], "-test.run", "^TestVerif$", "-test.timeout", "0")
		cmd.Env = append(os.Environ(), "VERIF_REPLAY="+path, "VERIF_PROP="+c.ID)
		out, err := cmd.CombinedOutput()
		ok := false
		if ee, isExit := err.(*exec.ExitError); isExit && ee.ExitCode() == ExitViolation {
			ok = strings.Contains(string(out), "class="+v.Class)
		}
		if !ok {
			_ = out
			fmt.Printf("NOTE: replay attempt for %s/%s (run %d, item %q) did not reproduce in a fresh process; trying the next fallback\n", v.Prop, v.Class, res.idx, v.Item)
			os.Remove(path)
			return path, ExitHarness
		}
	}
	return path, ExitViolation
}

// reportPrefix writes a replay file that re-executes the batch prefix 0..idx sequentially and
// confirms it in a fresh process.
func reportPrefix(c *Check, tier string, master uint64, v Violation, res *runResult) (string, bool) {
	dir := filepath.Join(verifDir(), "replays")
	os.MkdirAll(dir, 0o755)
	path := filepath.Join(dir, fmt.Sprintf("%s-%d-%d-%s-prefix.json", v.Prop, master, res.idx, shortHash(v.Class)))
	rf := ReplayFile{Property: v.Prop, Class: v.Class, Detail: v.Detail, Tier: tier, MasterSeed: master, RunIndex: res.idx, RunSeed: res.seed,
		PrefixRuns: true, HowTo: "/verif/bin/vcheck replay " + path}
	b, _ := json.MarshalIndent(rf, "", " ")
	if err := os.WriteFile(path, b, 0o644); err != nil {
		return path, false
	}
	cmd := exec.Command(os.Args[0], "-test.run", "^TestVerif$", "-test.timeout", "0")
	cmd.Env = append(os.Environ(), "VERIF_REPLAY="+path, "VERIF_PROP="+c.ID)
	out, err := cmd.CombinedOutput()
	if ee, isExit := err.(*exec.ExitError); isExit && ee.ExitCode() == ExitViolation && strings.Contains(string(out), "class="+v.Class) {
		return path, true
	}
	os.Remove(path)
	return path, false
}

func tail(s string, n int) string {
	if len(s) > n {
		return s[len(s)-n:]
	}
	return s
}

func shortHash(s string) string {
	h := sha256.Sum256([]byte(s))
	return hex.EncodeToString(h[:4])
}

// shrink minimises a failing tape while the same (property, class, item) persists.
func shrink(c *Check, tier string, idx int, seed uint64, tape []uint64, v Violation, tb *testing.T) ([]uint64, int) {
	execs := 0
	deadline := time.Now().Add(time.Duration(envInt("VERIF_SHRINK_S", 25)) * time.Second)
	maxExec := envInt("VERIF_SHRINK_EXEC", 1500)
	fails := func(cand []uint64) bool {
		if execs >= maxExec || time.Now().After(deadline) {
			return false
		}
		execs++
		res, _ := execRun(c, tier, idx, seed, ReplayTape(cand), v.Item, false, tb)
		for _, v2 := range res.viol {
			if v2.Prop == v.Prop && v2.Class == v.Class {
				return true
			}
		}
		return false
	}
	cur := append([]uint64(nil), tape...)
	if !fails(cur) {
		return cur, execs // cannot even reproduce; the fresh-process replay will flag it
	}
	// 1. shortest failing prefix (values past the end read as 0).
	lo, hi := 0, len(cur)
	for lo < hi {
		mid := (lo + hi) / 2
		if fails(cur[:mid]) {
			hi = mid
		} else {
			lo = mid + 1
		}
	}
	if hi < len(cur) && fails(cur[:hi]) {
		cur = cur[:hi]
	}
	improved := true
	for improved && execs < maxExec && time.Now().Before(deadline) {
		improved = false
		// 2. delete blocks.
		for _, bs := range []int{16, 8, 4, 2, 1} {
			for i := 0; i+bs <= len(cur); {
				cand := append(append([]uint64(nil), cur[:i]...), cur[i+bs:]...)
				if fails(cand) {
					cur = cand
					improved = true
				} else {
					i += bs
				}
			}
		}
		// 3. zero, then halve, then decrement each value.
		for i := range cur {
			if cur[i] == 0 {
				continue
			}
			for _, nv := range []uint64{0, cur[i] / 2, cur[i] - 1} {
				if nv >= cur[i] {
					continue
				}
				cand := append([]uint64(nil), cur...)
				cand[i] = nv
				if fails(cand) {
					cur = cand
					improved = true
					break
				}
			}
		}
	}
	// drop trailing zeros
	for len(cur) > 0 && cur[len(cur)-1] == 0 {
		cur = cur[:len(cur)-1]
	}
	return cur, execs
}

func replayMain(c *Check, path string, tb *testing.T) int {
	b, err := os.ReadFile(path)
	if err != nil {
		fmt.Println("HARNESS-ERROR: cannot read replay file:", err)
		return ExitHarness
	}
	var rf ReplayFile
	if err := json.Unmarshal(b, &rf); err != nil {
		fmt.Println("HARNESS-ERROR: bad replay file:", err)
		return ExitHarness
	}
	fmt.Printf("REPLAY property=%s class=%s master_seed=%d run_index=%d tape_len=%d focus=%q prefix=%v\n", rf.Property, rf.Class, rf.MasterSeed, rf.RunIndex, len(rf.Tape), rf.Focus, rf.PrefixRuns)
	if rf.CrashMode {
		return replayCrash(c, &rf, path)
	}
	if rf.PrefixRuns {
		for i := 0; i <= rf.RunIndex; i++ {
			seed := SubSeed(rf.MasterSeed, c.ID, i)
			res, _ := execRun(c, rf.Tier, i, seed, NewTape(seed), "", false, tb)
			if res.crashed != "" {
				fmt.Println("HARNESS-ERROR:", res.crashed)
				return ExitHarness
			}
			if i < rf.RunIndex {
				continue
			}
			for _, v := range res.viol {
				if v.Prop == rf.Property && v.Class == rf.Class {
					fmt.Printf("VIOLATION property=%s replay=%s\n  class=%s item=%s\n  %s\n", v.Prop, path, v.Class, v.Item, v.Detail)
					return ExitViolation
				}
			}
		}
		fmt.Printf("prefix replay did not reproduce class=%s\n", rf.Class)
		return ExitOK
	}
	res, run := execRun(c, rf.Tier, rf.RunIndex, rf.RunSeed, ReplayTape(rf.Tape), rf.Focus, true, tb)
	if res.crashed != "" {
		fmt.Println("HARNESS-ERROR:", res.crashed)
		return ExitHarness
	}
	for _, l := range run.Trace {
		fmt.Println("  |", l)
	}
	for _, v := range res.viol {
		if v.Prop == rf.Property && v.Class == rf.Class {
			fmt.Printf("VIOLATION property=%s replay=%s\n  class=%s item=%s\n  %s\n", v.Prop, path, v.Class, v.Item, v.Detail)
			return ExitViolation
		}
	}
	fmt.Printf("replay did not reproduce class=%s (violations seen: %d)\n", rf.Class, len(res.viol))
	return ExitOK
}

func writeEvidence(c *Check, tier string, master uint64, planned, done int, counters map[string]int64, states map[string]struct{},
	samples []string, simTime time.Duration, batchDigest string, rechecks int, known []string, newViol, allViol int, stuck []string, wall float64) {
	faults := map[string]map[string]int64{}
	probes := map[string]int64{}
	other := map[string]int64{}
	for _, k := range SortedKeys(counters) {
		switch {
		case strings.HasPrefix(k, "fault."):
			parts := strings.Split(strings.TrimPrefix(k, "fault."), ".")
			kind, what := strings.Join(parts[:len(parts)-1], "."), parts[len(parts)-1]
			if faults[kind] == nil {
				faults[kind] = map[string]int64{"configured": 0, "fired": 0}
			}
			faults[kind][what] = counters[k]
		case strings.HasPrefix(k, "probe."):
			probes[strings.TrimPrefix(k, "probe.")] = counters[k]
		case k != "eval":
			other[k] = counters[k]
		}
	}
	for _, p := range c.MustProbe {
		if _, ok := probes[p]; !ok {
			probes[p] = 0
		}
	}
	if len(samples) == 0 {
		samples = []string{"(no sample recorded)"}
	}
	sampleAny := make([]any, len(samples))
	for i, s := range samples {
		sampleAny[i] = s
	}
	skeys := SortedKeys(states)
	sort.Strings(skeys)
	exampleStates := skeys
	if len(exampleStates) > 12 {
		exampleStates = exampleStates[:12]
	}
	evals := counters["eval"]
	if evals == 0 {
		evals = int64(done)
	}
	cov := map[string]any{
		"evaluations":             evals,
		"distinct_nontrivial":     len(states),
		"rule":                    c.Rule,
		"samples":                 sampleAny,
		"exhaustive":              c.Exhaustive,
		"simulated_runs":          done,
		"runs_planned":            planned,
		"runs_per_hour":           int64(float64(done) / wall * 3600),
		"seeds":                   fmt.Sprintf("master VERIF_SEED=%d; run i uses SubSeed(master,%q,i), i in [0,%d)", master, c.ID, planned),
		"simulated_time_s":        simTime.Seconds(),
		"simulated_time_note":     c.SimTimeNote,
		"faults_injected":         faults,
		"probes":                  probes,
		"probes_stuck_at_zero":    stuck,
		"counters":                other,
		"example_distinct_states": exampleStates,
		"batch_event_log_digest":  batchDigest,
		"determinism_rechecks":    rechecks,
		"real_vs_stub":            c.RealStub,
		"known_findings_printed":  known,
		"violations_all_classes":  allViol,
		"toolchain":               runtime.Version(),
		"workers":                 envInt("VERIF_WORKERS", runtime.NumCPU()),
	}
	ev := map[string]any{
		"property_id": c.ID,
		"tier":        tier,
		"seed":        int64(master & 0x7fffffffffffffff),
		"level":       c.Level,
		"coverage":    cov,
		"assumptions": c.Assumptions,
		"wall_s":      wall,
		"violations":  newViol,
	}
	b, _ := json.MarshalIndent(ev, "", " ")
	dir := filepath.Join(verifDir(), "evidence")
	os.MkdirAll(dir, 0o755)
	if err := os.WriteFile(filepath.Join(dir, c.ID+".json"), b, 0o644); err != nil {
		fmt.Println("HARNESS-WARNING: cannot write evidence:", err)
	}
}

// raceMain is the supplementary mode of a binary built with -race: runs are executed one after the other
// (each run starts its own parallel goroutines), a marker names the run in progress on stderr, where the
// race detector reports too (GORACE=halt_on_error=1 stops the process at the first report).  The caller
// (bin/vcheck) reads the report; this function only runs the workload and reports verdict differences.
func raceMain(c *Check, tier string, master uint64, tb *testing.T) int {
	n := envInt("VERIF_RACE_RUNS", 60)
	only := envInt("VERIF_ONLY", -1)
	evals, viol := int64(0), 0
	for i := 0; i < n; i++ {
		if only >= 0 && i != only {
			continue
		}
		fmt.Fprintf(os.Stderr, "RACE-RUN %d\n", i)
		seed := SubSeed(master, c.ID+":race", i)
		res, _ := execRun(c, tier, i, seed, NewTape(seed), "", false, tb)
		if res.crashed != "" {
			fmt.Println("HARNESS-ERROR:", res.crashed)
			return ExitHarness
		}
		evals += res.counters["eval"]
		for _, v := range res.viol {
			viol++
			fmt.Printf("RACE-VIOLATION run=%d class=%s %s\n", i, v.Class, v.Detail)
		}
	}
	fmt.Printf("RACE-DONE runs=%d evaluations=%d verdict_differences=%d\n", n, evals, viol)
	return ExitOK
}
