// Command instrument copies a go-tdx-guest tree to a scratch directory and inserts a
// cooperative yield point before every statement of every function in the packages
// abi, verify, validate, pcs and rtmr.  The copy is what the C16 simulation is built
// against; /repo itself is never changed.
package main

import (
	"bytes"
	"flag"
	"fmt"
	"go/ast"
	"go/format"
	"go/parser"
	"go/token"
	"io"
	"io/fs"
	"os"
	"path/filepath"
	"strconv"
	"strings"
)

var pkgs = []string{"abi", "verify", "validate", "pcs", "rtmr"}

const yieldPkg = `// Package simyield is inserted by /verif's instrumenter into a scratch copy only.
package simyield

// Hook is installed by the simulator; nil means "no simulation running".
var Hook func(site string)

// Sites counts executed yield points (reach measurement).
var Sites uint64

// Y is a cooperative yield point.
func Y(site string) {
	if h := Hook; h != nil {
		h(site)
	}
}
`

func main() {
	src := flag.String("src", "/repo", "source tree")
	dst := flag.String("dst", "", "scratch destination (must not exist)")
	flag.Parse()
	if *dst == "" {
		fmt.Fprintln(os.Stderr, "need -dst")
		os.Exit(2)
	}
	if err := copyTree(*src, *dst); err != nil {
		fmt.Fprintln(os.Stderr, "copy:", err)
		os.Exit(2)
	}
	if err := os.MkdirAll(filepath.Join(*dst, "simyield"), 0o755); err != nil {
		panic(err)
	}
	if err := os.WriteFile(filepath.Join(*dst, "simyield", "simyield.go"), []byte(yieldPkg), 0o644); err != nil {
		panic(err)
	}
	total := 0
	for _, p := range pkgs {
		entries, err := os.ReadDir(filepath.Join(*dst, p))
		if err != nil {
			fmt.Fprintln(os.Stderr, "package", p, ":", err)
			os.Exit(2)
		}
		for _, e := range entries {
			n := e.Name()
			if e.IsDir() || !strings.HasSuffix(n, ".go") || strings.HasSuffix(n, "_test.go") {
				continue
			}
			c, err := instrumentFile(filepath.Join(*dst, p, n), p)
			if err != nil {
				fmt.Fprintln(os.Stderr, "instrument", n, ":", err)
				os.Exit(2)
			}
			total += c
		}
	}
	fmt.Printf("instrumented %d yield points in %v\n", total, pkgs)
}

func copyTree(src, dst string) error {
	if _, err := os.Stat(dst); err == nil {
		return fmt.Errorf("%s exists", dst)
	}
	return filepath.WalkDir(src, func(p string, d fs.DirEntry, err error) error {
		if err != nil {
			return err
		}
		rel, _ := filepath.Rel(src, p)
		if d.IsDir() {
			if d.Name() == ".git" {
				return filepath.SkipDir
			}
			return os.MkdirAll(filepath.Join(dst, rel), 0o755)
		}
		if !d.Type().IsRegular() {
			return nil
		}
		in, err := os.Open(p)
		if err != nil {
			return err
		}
		defer in.Close()
		out, err := os.Create(filepath.Join(dst, rel))
		if err != nil {
			return err
		}
		defer out.Close()
		_, err = io.Copy(out, in)
		return err
	})
}

// packageVars collects the names of the package-level variables of one package directory
// (sentinel errors "Err…" excluded): functions that touch them are where state shared between
// calls lives, and the scheduler prefers to preempt there.
func packageVars(dir string) map[string]bool {
	vars := map[string]bool{}
	entries, _ := os.ReadDir(dir)
	for _, e := range entries {
		n := e.Name()
		if e.IsDir() || !strings.HasSuffix(n, ".go") || strings.HasSuffix(n, "_test.go") {
			continue
		}
		f, err := parser.ParseFile(token.NewFileSet(), filepath.Join(dir, n), nil, 0)
		if err != nil {
			continue
		}
		for _, d := range f.Decls {
			gd, ok := d.(*ast.GenDecl)
			if !ok || gd.Tok != token.VAR {
				continue
			}
			for _, sp := range gd.Specs {
				for _, id := range sp.(*ast.ValueSpec).Names {
					if id.Name != "_" && !strings.HasPrefix(id.Name, "Err") {
						vars[id.Name] = true
					}
				}
			}
		}
	}
	return vars
}

func usesPackageVar(body *ast.BlockStmt, vars map[string]bool) bool {
	found := false
	ast.Inspect(body, func(n ast.Node) bool {
		if id, ok := n.(*ast.Ident); ok && vars[id.Name] && (id.Obj == nil || id.Obj.Kind == ast.Var && id.Obj.Decl != nil) {
			if id.Obj != nil {
				// resolved inside this file: package level only if declared by a top-level ValueSpec
				if _, isSpec := id.Obj.Decl.(*ast.ValueSpec); !isSpec {
					return true
				}
			}
			found = true
		}
		return !found
	})
	return found
}

func instrumentFile(path, pkg string) (int, error) {
	fset := token.NewFileSet()
	f, err := parser.ParseFile(fset, path, nil, parser.ParseComments)
	if err != nil {
		return 0, err
	}
	vars := packageVars(filepath.Dir(path))
	count := 0
	base := filepath.Base(path)
	for _, d := range f.Decls {
		fd, ok := d.(*ast.FuncDecl)
		if !ok || fd.Body == nil || fd.Name.Name == "init" {
			continue
		}
		name := fd.Name.Name
		hot := ""
		if usesPackageVar(fd.Body, vars) {
			hot = "!" // a function that touches package-level state
		}
		var walk func(n ast.Node)
		instr := func(list []ast.Stmt) []ast.Stmt {
			out := make([]ast.Stmt, 0, 2*len(list))
			for _, s := range list {
				line := fset.Position(s.Pos()).Line
				site := fmt.Sprintf("%s%s/%s:%d %s", hot, pkg, base, line, name)
				call := &ast.ExprStmt{X: &ast.CallExpr{
					Fun:  &ast.SelectorExpr{X: ast.NewIdent("simyield"), Sel: ast.NewIdent("Y")},
					Args: []ast.Expr{&ast.BasicLit{Kind: token.STRING, Value: strconv.Quote(site)}},
				}}
				out = append(out, call, s)
				count++
			}
			return out
		}
		walk = func(n ast.Node) {
			ast.Inspect(n, func(x ast.Node) bool {
				switch b := x.(type) {
				case *ast.SwitchStmt:
					if b.Init != nil {
						walk(b.Init)
					}
					for _, c := range b.Body.List {
						walk(c)
					}
					return false
				case *ast.TypeSwitchStmt:
					for _, c := range b.Body.List {
						walk(c)
					}
					return false
				case *ast.SelectStmt:
					for _, c := range b.Body.List {
						walk(c)
					}
					return false
				case *ast.BlockStmt:
					for _, s := range b.List {
						walk(s)
					}
					b.List = instr(b.List)
					return false
				case *ast.CaseClause:
					for _, s := range b.Body {
						walk(s)
					}
					b.Body = instr(b.Body)
					return false
				case *ast.CommClause:
					for _, s := range b.Body {
						walk(s)
					}
					b.Body = instr(b.Body)
					return false
				}
				return true
			})
		}
		walk(fd.Body)
	}
	if count == 0 {
		return 0, nil
	}
	// add the import
	imp := &ast.ImportSpec{Path: &ast.BasicLit{Kind: token.STRING, Value: strconv.Quote("github.com/google/go-tdx-guest/simyield")}}
	added := false
	for _, d := range f.Decls {
		if gd, ok := d.(*ast.GenDecl); ok && gd.Tok == token.IMPORT {
			gd.Specs = append(gd.Specs, imp)
			if !gd.Lparen.IsValid() {
				gd.Lparen = gd.Pos()
				gd.Rparen = gd.End()
			}
			added = true
			break
		}
	}
	if !added {
		f.Decls = append([]ast.Decl{&ast.GenDecl{Tok: token.IMPORT, Specs: []ast.Spec{imp}}}, f.Decls...)
	}
	var buf bytes.Buffer
	if err := format.Node(&buf, fset, f); err != nil {
		return 0, err
	}
	return count, os.WriteFile(path, buf.Bytes(), 0o644)
}
