package sim

import (
	"fmt"
	"io"
	"os"
	"syscall"
	"testing"

	"github.com/google/logger"
	"verif/sim/checks"
	"verif/sim/core"
)

var exitCode = core.ExitHarness

// TestMain turns the test binary into the simulator CLI.  It is a test binary
// only because testing/synctest bubbles need a *testing.T.
func TestMain(m *testing.M) {
	// The library's process-wide logger was initialised (by package init) to write to the
	// *os.File that was os.Stdout at that time, and cannot be re-initialised.  Point that
	// descriptor at /dev/null and keep a duplicate for the simulator's own output.
	if fd, err := syscall.Dup(1); err == nil {
		if null, err := os.OpenFile(os.DevNull, os.O_WRONLY, 0); err == nil {
			if syscall.Dup3(int(null.Fd()), 1, 0) == nil {
				os.Stdout = os.NewFile(uintptr(fd), "/dev/stdout")
			}
		}
	}
	m.Run()
	os.Exit(exitCode)
}

func TestVerif(t *testing.T) {
	// The library logs through a process-wide logger; silence it (it is not a seam).
	logger.Init("verif", false, false, io.Discard)
	checks.BubbleTB = t
	prop := os.Getenv("VERIF_PROP")
	if prop == "selftest" {
		exitCode = checks.SelfTest(t)
		return
	}
	c := checks.Registry[prop]
	if c == nil {
		fmt.Printf("HARNESS-ERROR: unknown property %q\n", prop)
		exitCode = core.ExitHarness
		return
	}
	exitCode = core.Main(c, t)
}
