package sim

import (
	"fmt"
	"io"
	"os"
	"testing"

	"github.com/google/logger"
	"verif/sim/checks"
	"verif/sim/core"
)

var exitCode = core.ExitHarness

// TestMain turns the test binary into the simulator CLI.  It is a test binary
// only because testing/synctest bubbles need a *testing.T.
func TestMain(m *testing.M) {
	m.Run()
	os.Exit(exitCode)
}

func TestVerif(t *testing.T) {
	// The library logs through a process-wide logger; silence it (it is not a seam).
	logger.Init("verif", false, false, io.Discard)
	prop := os.Getenv("VERIF_PROP")
	if prop == "selftest" {
		exitCode = checks.SelfTest(t)
		return
	}
	c := checks.Registry[prop]
	if c == nil {
		fmt.Printf("HARNESS-ERROR: unknown property %q\n", prop)
		exitCode = core.ExitHarness
		return
	}
	exitCode = core.Main(c, t)
}
