package world

import (
	"crypto/sha512"
	"fmt"
	"io/fs"
	"os"
	"sort"
	"strconv"
	"strings"
	"syscall"
	"time"
)

// TSM is a model of the Linux configfs-tsm "rtmrs" subsystem: a directory tree
// of entries, each bound to one RTMR index by writing "index"; writing 48 bytes
// to "digest" extends reg[index] = SHA-384(reg[index] || digest).  It implements
// configfsi.Client (structurally) and records every operation.
type TSM struct {
	Entries map[string]*TSMEntry
	Reg     map[int][48]byte
	Ops     []TSMOp
	seq     int
	// FailAt > 0 makes the FailAt-th client call fail (I/O fault injection).
	FailAt int
	// FailKind, if set, makes EVERY call of that kind ("readdir", "read", "write", "mkdir") fail
	// from the FailAt-th client call on (a persistent fault).
	FailKind string
	calls    int
	Fired    bool
	// UnboundIndex: what reading "index" of an entry not yet bound gives — 0 an error, 1 empty content
	// (as go-configfs-tsm's fake shows it), 2 "-1\n".  IndexNoNewline: a bound index reads "2" instead of "2\n".
	UnboundIndex   int
	IndexNoNewline bool
	// Latency, if set, is the simulated time an operation takes; slept only while InBubble (fake clock).
	Latency  func(kind, path string) time.Duration
	InBubble bool
	// OnOp, if set, is called at the start of every client operation (a park point for the seeded scheduler).
	OnOp func(kind, path string)
}

func (t *TSM) wait(kind, path string) {
	if t.OnOp != nil {
		t.OnOp(kind, path)
	}
	if t.Latency != nil && t.InBubble {
		if d := t.Latency(kind, path); d > 0 {
			time.Sleep(d)
		}
	}
}

// TSMEntry is one directory under rtmrs/.
type TSMEntry struct {
	Index      int // -1 unbound
	Unreadable bool
}

// TSMOp is one recorded client operation.
type TSMOp struct {
	Kind string // mkdir | readdir | read | write | remove
	Path string
	Data []byte
	Err  bool
}

const tsmRoot = "/sys/kernel/config/tsm/rtmrs"

// NewTSM returns an empty TSM.
func NewTSM() *TSM { return &TSM{Entries: map[string]*TSMEntry{}, Reg: map[int][48]byte{}} }

// errors carry the errno a real configfs would return, wrapped the way the os package does
var errInjected error = &os.PathError{Op: "io", Path: "configfs-tsm", Err: syscall.EIO}

func (t *TSM) fault(kind ...string) bool {
	t.calls++
	if t.FailAt > 0 && t.FailKind != "" {
		if t.calls >= t.FailAt && len(kind) == 1 && kind[0] == t.FailKind {
			t.Fired = true
			return true
		}
		return false
	}
	if t.FailAt > 0 && t.calls == t.FailAt {
		t.Fired = true
		return true
	}
	return false
}

func (t *TSM) rec(kind, path string, data []byte, err error) {
	t.Ops = append(t.Ops, TSMOp{Kind: kind, Path: path, Data: append([]byte(nil), data...), Err: err != nil})
}

// Writes counts the operations that change the TSM (everything but reads).
func (t *TSM) Writes() int {
	n := 0
	for _, o := range t.Ops {
		if o.Kind == "write" || o.Kind == "mkdir" || o.Kind == "remove" {
			n++
		}
	}
	return n
}

// DigestWrites returns the recorded writes to "digest" attributes.
func (t *TSM) DigestWrites() []TSMOp {
	var out []TSMOp
	for _, o := range t.Ops {
		if o.Kind == "write" && strings.HasSuffix(o.Path, "/digest") {
			out = append(out, o)
		}
	}
	return out
}

// split returns (entry, attribute) of a path under the rtmrs root.
func split(p string) (string, string, bool) {
	if !strings.HasPrefix(p, tsmRoot+"/") {
		return "", "", false
	}
	parts := strings.Split(strings.TrimPrefix(p, tsmRoot+"/"), "/")
	switch len(parts) {
	case 1:
		return parts[0], "", true
	case 2:
		return parts[0], parts[1], true
	}
	return "", "", false
}

// MkdirTemp implements configfsi.Client.
func (t *TSM) MkdirTemp(dir, pattern string) (string, error) {
	t.wait("mkdir", dir)
	if t.fault("mkdir") {
		t.rec("mkdir", dir+"/"+pattern, nil, errInjected)
		return "", errInjected
	}
	if strings.TrimSuffix(dir, "/") != tsmRoot {
		err := fmt.Errorf("simulated TSM: mkdir outside %s: %s", tsmRoot, dir)
		t.rec("mkdir", dir+"/"+pattern, nil, err)
		return "", err
	}
	t.seq++
	name := strings.Replace(pattern, "*", "", 1) + fmt.Sprintf("%06d", t.seq)
	t.Entries[name] = &TSMEntry{Index: -1}
	p := tsmRoot + "/" + name
	t.rec("mkdir", p, nil, nil)
	return p, nil
}

type tsmDirEntry struct{ name string }

func (d tsmDirEntry) Name() string               { return d.name }
func (d tsmDirEntry) IsDir() bool                { return true }
func (d tsmDirEntry) Type() fs.FileMode          { return fs.ModeDir }
func (d tsmDirEntry) Info() (fs.FileInfo, error) { return tsmInfo{d.name}, nil }

type tsmInfo struct{ name string }

func (i tsmInfo) Name() string       { return i.name }
func (i tsmInfo) Size() int64        { return 0 }
func (i tsmInfo) Mode() fs.FileMode  { return fs.ModeDir | 0o755 }
func (i tsmInfo) ModTime() time.Time { return time.Time{} }
func (i tsmInfo) IsDir() bool        { return true }
func (i tsmInfo) Sys() any           { return nil }

// ReadDir implements configfsi.Client.
func (t *TSM) ReadDir(dirname string) ([]os.DirEntry, error) {
	t.wait("readdir", dirname)
	if t.fault("readdir") {
		t.rec("readdir", dirname, nil, errInjected)
		return nil, errInjected
	}
	if strings.TrimSuffix(dirname, "/") != tsmRoot {
		err := fmt.Errorf("simulated TSM: no such directory %s", dirname)
		t.rec("readdir", dirname, nil, err)
		return nil, err
	}
	names := make([]string, 0, len(t.Entries))
	for n := range t.Entries {
		names = append(names, n)
	}
	sort.Strings(names)
	out := make([]os.DirEntry, len(names))
	for i, n := range names {
		out[i] = tsmDirEntry{n}
	}
	t.rec("readdir", dirname, nil, nil)
	return out, nil
}

// ReadFile implements configfsi.Client.
func (t *TSM) ReadFile(name string) ([]byte, error) {
	t.wait("read", name)
	if t.fault("read") {
		t.rec("read", name, nil, errInjected)
		return nil, errInjected
	}
	e, attr, ok := split(name)
	ent := t.Entries[e]
	if !ok || ent == nil {
		err := fmt.Errorf("simulated TSM: no such file %s", name)
		t.rec("read", name, nil, err)
		return nil, err
	}
	switch attr {
	case "index":
		if ent.Index < 0 && !ent.Unreadable && t.UnboundIndex != 0 {
			t.rec("read", name, nil, nil)
			return []byte([]string{"", "", "-1\n"}[t.UnboundIndex]), nil
		}
		if ent.Unreadable || ent.Index < 0 {
			err := fmt.Errorf("simulated TSM: cannot read %s", name)
			t.rec("read", name, nil, err)
			return nil, err
		}
		t.rec("read", name, nil, nil)
		if t.IndexNoNewline {
			return []byte(strconv.Itoa(ent.Index)), nil
		}
		return []byte(strconv.Itoa(ent.Index) + "\n"), nil
	case "digest":
		if ent.Index < 0 {
			err := fmt.Errorf("simulated TSM: entry not bound")
			t.rec("read", name, nil, err)
			return nil, err
		}
		r := t.Reg[ent.Index]
		t.rec("read", name, nil, nil)
		return r[:], nil
	case "tcg_map":
		t.rec("read", name, nil, nil)
		return []byte("PCR[1,7]\n"), nil
	}
	err := fmt.Errorf("simulated TSM: no such attribute %s", name)
	t.rec("read", name, nil, err)
	return nil, err
}

// WriteFile implements configfsi.Client.
func (t *TSM) WriteFile(name string, contents []byte) error {
	t.wait("write", name)
	if t.fault("write") {
		t.rec("write", name, contents, errInjected)
		return errInjected
	}
	e, attr, ok := split(name)
	ent := t.Entries[e]
	fail := func(msg string) error {
		var errno syscall.Errno = syscall.EINVAL
		switch {
		case strings.HasPrefix(msg, "EBUSY"):
			errno = syscall.EBUSY
		case strings.HasPrefix(msg, "no such"):
			errno = syscall.ENOENT
		}
		err := &os.PathError{Op: "write", Path: name, Err: errno}
		t.rec("write", name, contents, err)
		return err
	}
	if !ok || ent == nil {
		return fail("no such file " + name)
	}
	switch attr {
	case "index":
		v, err := strconv.ParseUint(strings.TrimRight(string(contents), "\n"), 10, 32)
		if err != nil {
			return fail("EINVAL: index is not a number")
		}
		if ent.Index >= 0 {
			return fail("EBUSY: entry already bound")
		}
		for _, o := range t.Entries {
			if o.Index == int(v) {
				return fail("EBUSY: another entry is bound to this index")
			}
		}
		ent.Index = int(v)
		t.rec("write", name, contents, nil)
		return nil
	case "digest":
		if ent.Index < 0 {
			return fail("EINVAL: entry not bound to an index")
		}
		if len(contents) != 48 {
			return fail("EINVAL: digest must be 48 bytes")
		}
		cur := t.Reg[ent.Index]
		h := sha512.Sum384(append(append([]byte(nil), cur[:]...), contents...))
		t.Reg[ent.Index] = h
		t.rec("write", name, contents, nil)
		return nil
	}
	return fail("no such attribute " + name)
}

// RemoveAll implements configfsi.Client.
func (t *TSM) RemoveAll(path string) error {
	if t.fault() {
		t.rec("remove", path, nil, errInjected)
		return errInjected
	}
	e, _, ok := split(path)
	if ok {
		delete(t.Entries, e)
	}
	t.rec("remove", path, nil, nil)
	return nil
}

// EntryIndex returns the index an entry path is bound to (-1 if none).
func (t *TSM) EntryIndex(digestPath string) int {
	e, _, ok := split(digestPath)
	if !ok || t.Entries[e] == nil {
		return -1
	}
	return t.Entries[e].Index
}

// CallsSoFar returns the number of client calls made so far (for placing a fault).
func (t *TSM) CallsSoFar() int { return t.calls }

// BoundReadable reports whether some entry is bound to idx with a readable index attribute.
func (t *TSM) BoundReadable(idx int) bool {
	for _, e := range t.Entries {
		if e.Index == idx && !e.Unreadable {
			return true
		}
	}
	return false
}

// BoundUnreadable reports whether some entry is bound to idx but its index cannot be read.
func (t *TSM) BoundUnreadable(idx int) bool {
	for _, e := range t.Entries {
		if e.Index == idx && e.Unreadable {
			return true
		}
	}
	return false
}
