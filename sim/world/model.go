package world

import (
	"bytes"
	"encoding/binary"
	"encoding/hex"
	"fmt"
	"strings"
)

// Expectation of the reference model: three-valued.
type Expectation int

const (
	DontCare Expectation = iota
	MustAccept
	MustReject
)

func (e Expectation) String() string {
	return [...]string{"dont-care", "must-accept", "must-reject"}[e]
}

// Verdict of one model clause.
type Verdict struct {
	Exp    Expectation
	Clause string // which sentence of the property decides
	Level  int    // selected TCB level index (-1 none)
	Mod    int    // selected module level index (-1 none / branch off)
}

// TcbInputs are the platform-side facts the C04 sentence speaks about: what the CA
// put in the PCK certificate and what the TDX module reported in the quote.
type TcbInputs struct {
	Fmspc        [6]byte
	PceID        [2]byte
	Comp         [16]byte
	Pce          uint16
	Tee          [16]byte
	MrSignerSeam [48]byte
	SeamAttr     [8]byte
}

// Inputs collects the TCB inputs of the world's platform.
func (w *World) Inputs() TcbInputs {
	return TcbInputs{Fmspc: w.P.Ext.FMSPC, PceID: w.P.Ext.PCEID, Comp: w.P.Ext.Comp, Pce: w.P.Ext.PCESVN, Tee: w.Quote.TeeTcbSvn,
		MrSignerSeam: w.Quote.MrSignerSeam, SeamAttr: w.Quote.SeamAttr}
}

// SelectLevel is "the first TCB level in listed order whose SGX component SVNs, PCE
// SVN and TDX component SVNs (from index 2 when TEE_TCB_SVN[1] is non-zero) are all
// not above the platform's".
func SelectLevel(levels []TcbLevel, in TcbInputs) int {
	start := 0
	if in.Tee[1] != 0 {
		start = 2
	}
	for i, l := range levels {
		ok := l.Pce <= in.Pce
		for j := 0; j < 16 && ok; j++ {
			if l.Sgx[j] > in.Comp[j] {
				ok = false
			}
		}
		for j := start; j < 16 && ok; j++ {
			if l.Tdx[j] > in.Tee[j] {
				ok = false
			}
		}
		if ok {
			return i
		}
	}
	return -1
}

// EvalTcb is an executable transcription of the C04 sentence.
func EvalTcb(d *TcbInfoDoc, in TcbInputs) (v Verdict) {
	v = Verdict{Level: -1, Mod: -1}
	rej := func(c string) Verdict { v.Exp, v.Clause = MustReject, c; return v }
	if !strings.EqualFold(d.Fmspc, hex.EncodeToString(in.Fmspc[:])) {
		return rej("fmspc-mismatch")
	}
	wantPce := hex.EncodeToString(in.PceID[:])
	if d.PceID != wantPce {
		if strings.EqualFold(d.PceID, wantPce) {
			v.Exp, v.Clause = DontCare, "pceid-letter-case"
			return v
		}
		return rej("pceid-mismatch")
	}
	// SEAM signer and masked SEAM attributes
	modKnown := true
	idMatch := func(signer, attr, mask []byte) bool {
		if !bytes.Equal(signer, in.MrSignerSeam[:]) || len(mask) != 8 || len(attr) != 8 {
			return false
		}
		return bytes.Equal(and(in.SeamAttr[:], mask), attr)
	}
	topMatch := idMatch(d.ModSigner, d.ModAttr, d.ModMask)
	li := SelectLevel(d.Levels, in)
	v.Level = li
	var mod *ModuleIdentity
	if in.Tee[1] != 0 {
		if in.Tee[1] >= 10 {
			modKnown = false // spelling of the id for versions >= 10 is not fixed by the property
		}
		id := fmt.Sprintf("TDX_%02d", in.Tee[1])
		cnt := 0
		for i := range d.Modules {
			if d.Modules[i].ID == id {
				if mod == nil {
					mod = &d.Modules[i]
				}
				cnt++
			}
		}
		if cnt > 1 {
			modKnown = false // duplicate identities: which one counts is not fixed
		}
	}
	if in.Tee[1] == 0 {
		if !topMatch {
			return rej("seam-identity-mismatch")
		}
	} else {
		modMatch := mod != nil && idMatch(mod.Mrsigner, mod.Attr, mod.Mask)
		if !topMatch && !modMatch {
			return rej("seam-identity-mismatch")
		}
		if topMatch != modMatch {
			// the property does not say which of tdxModule / the module identity is compared
			defer func() {
				if v.Exp == MustAccept {
					v.Exp, v.Clause = DontCare, "seam-identity-ambiguous"
				}
			}()
		}
	}
	if li < 0 {
		return rej("no-tcb-level-matches")
	}
	if d.Levels[li].Status != "UpToDate" {
		return rej("platform-level-not-UpToDate:" + d.Levels[li].Status)
	}
	if in.Tee[1] != 0 {
		if !modKnown {
			v.Exp, v.Clause = DontCare, "module-id-ambiguous"
			return v
		}
		if mod == nil {
			return rej("module-identity-missing")
		}
		mi := -1
		for i, l := range mod.Levels {
			if l.Isvsvn <= uint32(in.Tee[0]) {
				mi = i
				break
			}
		}
		v.Mod = mi
		if mi < 0 {
			return rej("no-module-level-matches")
		}
		if mod.Levels[mi].Status != "UpToDate" {
			return rej("module-level-not-UpToDate:" + mod.Levels[mi].Status)
		}
	}
	v.Exp, v.Clause = MustAccept, "tcb-ok"
	return v
}

// EvalQE is an executable transcription of the C07 sentence.
func EvalQE(d *QEIdentityDoc, rep *QEReport) Verdict {
	v := Verdict{Level: -1, Mod: -1}
	rej := func(c string) Verdict { v.Exp, v.Clause = MustReject, c; return v }
	if !bytes.Equal(d.Mrsigner, rep.MrSigner[:]) {
		return rej("qe-mrsigner-mismatch")
	}
	if d.ProdID != int(rep.IsvProdID) {
		return rej("qe-isvprodid-mismatch")
	}
	var misc [4]byte
	binary.LittleEndian.PutUint32(misc[:], rep.MiscSelect)
	if len(d.MiscMask) != 4 || len(d.Misc) != 4 {
		return rej("qe-miscselect-length")
	}
	if !bytes.Equal(and(misc[:], d.MiscMask), d.Misc) {
		return rej("qe-miscselect-mismatch")
	}
	if len(d.AttrMask) != 16 || len(d.Attr) != 16 {
		return rej("qe-attributes-length")
	}
	if !bytes.Equal(and(rep.Attributes[:], d.AttrMask), d.Attr) {
		return rej("qe-attributes-mismatch")
	}
	for i, l := range d.Levels {
		if l.Isvsvn <= uint32(rep.IsvSvn) {
			v.Level = i
			break
		}
	}
	if v.Level < 0 {
		return rej("no-qe-level-matches")
	}
	if d.Levels[v.Level].Status != "UpToDate" {
		return rej("qe-level-not-UpToDate:" + d.Levels[v.Level].Status)
	}
	v.Exp, v.Clause = MustAccept, "qe-ok"
	return v
}

// SelectModule finds "the TDX module identity TDX_<version>" and "its first level with
// isvsvn not above TEE_TCB_SVN[0]".  ambiguous is set where the property does not fix
// the answer (version >= 10: spelling of the id; duplicate identities).
func SelectModule(d *TcbInfoDoc, in TcbInputs) (found bool, idx int, ambiguous bool) {
	idx = -1
	if in.Tee[1] == 0 {
		return false, -1, false
	}
	if in.Tee[1] >= 10 {
		return false, -1, true
	}
	id := fmt.Sprintf("TDX_%02d", in.Tee[1])
	var mod *ModuleIdentity
	cnt := 0
	for i := range d.Modules {
		if d.Modules[i].ID == id {
			if mod == nil {
				mod = &d.Modules[i]
			}
			cnt++
		}
	}
	if cnt > 1 {
		return true, -1, true
	}
	if mod == nil {
		return false, -1, false
	}
	for i, l := range mod.Levels {
		if l.Isvsvn <= uint32(in.Tee[0]) {
			return true, i, false
		}
	}
	return true, -1, false
}
