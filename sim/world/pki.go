// Package world holds the simulator-owned counter-parties of the verifier: the
// Intel CA, the TDX platform with its quoting enclave, the attester→verifier
// channel, the Intel PCS endpoint and the clock.  Nothing here imports the
// repo's abi / pcs / verify / validate packages: layouts, DER and JSON are
// written out independently so that agreement with the code under test is a
// result (C11), not an assumption.
package world

import (
	"crypto"
	"crypto/ecdsa"
	"crypto/elliptic"
	"crypto/sha256"
	"crypto/x509"
	"crypto/x509/pkix"
	"encoding/asn1"
	"encoding/pem"
	"fmt"
	"math/big"
	"time"
)

// Rand is the choice source (implemented by *core.Tape).
type Rand interface {
	Draw(n int) int
	U64() uint64
	Bytes(k int) []byte
	Chance(num, den int) bool
	Range(lo, hi int) int
	Bool() bool
	Pick(opts ...string) string
	Perm(n int) []int
}

// Key is a P-256 key pair derived from the tape.  Signing uses Go's
// deterministic (RFC 6979) mode (nil random source), so every certificate, CRL,
// collateral signature and quote is a pure function of the seed.
type Key struct {
	Priv *ecdsa.PrivateKey
}

// NewKey derives a key from one tape cell.
func NewKey(r Rand) *Key {
	b := r.Bytes(32)
	for i := 0; ; i++ {
		b[0] &= 0x7f // keep well below the group order
		b[31] |= 1   // never zero
		k, err := ecdsa.ParseRawPrivateKey(elliptic.P256(), b)
		if err == nil {
			return &Key{Priv: k}
		}
		h := sha256.Sum256(append(b, byte(i)))
		b = h[:]
	}
}

// Pub64 returns X||Y (32 bytes each, big endian) — the raw form used in quotes.
func (k *Key) Pub64() []byte {
	b, err := k.Priv.PublicKey.Bytes() // 0x04 || X || Y
	if err != nil {
		panic(err)
	}
	return append([]byte(nil), b[1:]...)
}

type ecdsaSig struct{ R, S *big.Int }

// Sign64 signs SHA-256(msg) and returns r||s (32 bytes each, big endian).
func (k *Key) Sign64(msg []byte) []byte {
	d := sha256.Sum256(msg)
	der, err := k.Priv.Sign(nil, d[:], crypto.SHA256)
	if err != nil {
		panic(err)
	}
	var s ecdsaSig
	if _, err := asn1.Unmarshal(der, &s); err != nil {
		panic(err)
	}
	out := make([]byte, 64)
	s.R.FillBytes(out[:32])
	s.S.FillBytes(out[32:])
	return out
}

// Cert is an issued certificate with (if the simulator holds it) its key.
type Cert struct {
	DER []byte
	X   *x509.Certificate
	Key *Key
}

// PEM encodes the certificate.
func (c *Cert) PEM() []byte {
	return pem.EncodeToMemory(&pem.Block{Type: "CERTIFICATE", Bytes: c.DER})
}

// Window is a validity period.
type Window struct{ NotBefore, NotAfter time.Time }

// Contains reports whether t is inside the window (inclusive, as X.509 defines).
func (w Window) Contains(t time.Time) bool { return !t.Before(w.NotBefore) && !t.After(w.NotAfter) }

// CertSpec describes a certificate to issue.
type CertSpec struct {
	CN       string
	Serial   *big.Int
	Win      Window
	IsCA     bool
	PathLen  int // -1 none
	KeyUsage x509.KeyUsage
	CRLDP    []string
	SKI      []byte
	ExtraExt []pkix.Extension
	NoBasic  bool
	// RawSubject, when set, is used verbatim as the subject (and as issuer of what it signs).
	RawSubject []byte
	// legal but unusual encodings (RFC 5280 allows all of them)
	AKI             int  // authorityKeyIdentifier: 0 keyIdentifier (usual), 1 absent, 2 issuer+serial form only, 3 all three fields
	ExtraCritical   bool // the ExtraExt entries are marked critical
	UnknownCritical bool // a critical extension nobody knows is added
	EKU             []x509.ExtKeyUsage
}

// AKI forms.
const (
	AKIKeyID = iota
	AKIAbsent
	AKIIssuerSerial
	AKIAll
)

var oidAKI = asn1.ObjectIdentifier{2, 5, 29, 35}

// akiExt encodes an authorityKeyIdentifier naming the issuer certificate by (its issuer, its serial)
// and, if withKeyID, by key identifier as well.
func akiExt(issuer *x509.Certificate, withKeyID bool) pkix.Extension {
	var body []byte
	if withKeyID && len(issuer.SubjectKeyId) > 0 {
		body = append(body, der(asn1.RawValue{Class: asn1.ClassContextSpecific, Tag: 0, Bytes: issuer.SubjectKeyId})...)
	}
	dirName := der(asn1.RawValue{Class: asn1.ClassContextSpecific, Tag: 4, IsCompound: true, Bytes: issuer.RawIssuer})
	body = append(body, der(asn1.RawValue{Class: asn1.ClassContextSpecific, Tag: 1, IsCompound: true, Bytes: dirName})...)
	ser := issuer.SerialNumber.Bytes()
	if len(ser) == 0 || ser[0]&0x80 != 0 {
		ser = append([]byte{0}, ser...)
	}
	body = append(body, der(asn1.RawValue{Class: asn1.ClassContextSpecific, Tag: 2, Bytes: ser})...)
	return pkix.Extension{Id: oidAKI, Value: der(asn1.RawValue{Class: asn1.ClassUniversal, Tag: asn1.TagSequence, IsCompound: true, Bytes: body})}
}

func intelName(cn string) pkix.Name {
	return pkix.Name{CommonName: cn, Organization: []string{"Intel Corporation"}, Locality: []string{"Santa Clara"}, Province: []string{"CA"}, Country: []string{"US"}}
}

// Issue creates a certificate for pub, signed by signKey and naming issuer as
// its issuer (issuer == nil ⇒ self-signed).  signKey need not be the issuer's
// real key: that is how forgeries "in the name of" a CA are made.
func Issue(spec CertSpec, pub *Key, issuer *Cert, signKey *Key) *Cert {
	tmpl := &x509.Certificate{
		SerialNumber:          spec.Serial,
		Subject:               intelName(spec.CN),
		NotBefore:             spec.Win.NotBefore,
		NotAfter:              spec.Win.NotAfter,
		KeyUsage:              spec.KeyUsage,
		BasicConstraintsValid: !spec.NoBasic,
		IsCA:                  spec.IsCA,
		CRLDistributionPoints: spec.CRLDP,
		SubjectKeyId:          spec.SKI,
		ExtraExtensions:       spec.ExtraExt,
		SignatureAlgorithm:    x509.ECDSAWithSHA256,
		RawSubject:            spec.RawSubject,
	}
	if spec.ExtraCritical {
		tmpl.ExtraExtensions = nil
		for _, e := range spec.ExtraExt {
			e.Critical = true
			tmpl.ExtraExtensions = append(tmpl.ExtraExtensions, e)
		}
	}
	if spec.UnknownCritical {
		tmpl.ExtraExtensions = append(append([]pkix.Extension(nil), tmpl.ExtraExtensions...),
			pkix.Extension{Id: asn1.ObjectIdentifier{1, 3, 6, 1, 4, 1, 55555, 1}, Critical: true, Value: der([]byte("verif"))})
	}
	tmpl.ExtKeyUsage = spec.EKU
	if spec.IsCA && spec.PathLen >= 0 {
		tmpl.MaxPathLen = spec.PathLen
		tmpl.MaxPathLenZero = spec.PathLen == 0
	} else {
		tmpl.MaxPathLen = -1
	}
	var parent *x509.Certificate
	if issuer == nil {
		parent = tmpl
	} else {
		// a parent template carrying the issuer's names but the key that actually signs
		parent = &x509.Certificate{Subject: issuer.X.Subject, SubjectKeyId: issuer.X.SubjectKeyId, PublicKey: &signKey.Priv.PublicKey,
			RawSubject: issuer.X.RawSubject}
	}
	if issuer != nil {
		switch spec.AKI {
		case AKIAbsent:
			parent.SubjectKeyId = nil
		case AKIIssuerSerial, AKIAll:
			tmpl.ExtraExtensions = append(append([]pkix.Extension(nil), tmpl.ExtraExtensions...), akiExt(issuer.X, spec.AKI == AKIAll))
		}
	}
	der, err := x509.CreateCertificate(nil, tmpl, parent, &pub.Priv.PublicKey, signKey.Priv)
	if err != nil {
		panic(fmt.Sprintf("world: CreateCertificate(%s): %v", spec.CN, err))
	}
	x, err := x509.ParseCertificate(der)
	if err != nil {
		panic(fmt.Sprintf("world: ParseCertificate(%s): %v", spec.CN, err))
	}
	return &Cert{DER: der, X: x, Key: pub}
}

// Names of the Intel roles (from Intel's PCK certificate and PCS specifications).
const (
	CNRoot      = "Intel SGX Root CA"
	CNPlatform  = "Intel SGX PCK Platform CA"
	CNProcessor = "Intel SGX PCK Processor CA"
	CNPCK       = "Intel SGX PCK Certificate"
	CNTcbSigner = "Intel SGX TCB Signing"
	RootCRLURL  = "https://certificates.trustedservices.intel.com/IntelSGXRootCA.der"
)

// PKI is one certification authority hierarchy.
type PKI struct {
	Label                             string
	RootKey, PlatKey, ProcKey, TcbKey *Key
	Root, Plat, Proc, Tcb             *Cert
	RootSpec, PlatSpec, ProcSpec      CertSpec
	TcbSpec                           CertSpec
}

func randSerial(r Rand) *big.Int {
	b := r.Bytes(20)
	b[0] &= 0x7f
	b[0] |= 0x10
	// mostly 20 bytes as Intel issues them; one in four shorter (a leading zero byte, or a short serial):
	// serial numbers are integers, not fixed-width strings
	if r.Chance(1, 4) {
		b = b[[]int{1, 1, 4, 8, 12, 12}[r.Draw(6)]:] // 19, 16, 12 or 8 bytes: short enough to differ in length, long enough not to collide
		b[0] |= 0x01
	}
	return new(big.Int).SetBytes(b)
}

func ski(r Rand) []byte { return r.Bytes(20) }

// NewPKI generates a hierarchy around epoch.  If like != nil the new hierarchy is
// a look-alike: identical names, serial numbers, validity and key identifiers,
// different keys.
func NewPKI(r Rand, label string, epoch time.Time, like *PKI) *PKI {
	p := &PKI{Label: label}
	p.RootKey, p.PlatKey, p.ProcKey, p.TcbKey = NewKey(r), NewKey(r), NewKey(r), NewKey(r)
	y := 365 * 24 * time.Hour
	if like != nil {
		p.RootSpec, p.PlatSpec, p.ProcSpec, p.TcbSpec = like.RootSpec, like.PlatSpec, like.ProcSpec, like.TcbSpec
	} else {
		p.RootSpec = CertSpec{CN: CNRoot, Serial: randSerial(r), Win: Window{epoch.Add(-6 * y), epoch.Add(25 * y)}, IsCA: true, PathLen: 1,
			KeyUsage: x509.KeyUsageCertSign | x509.KeyUsageCRLSign, CRLDP: []string{RootCRLURL}, SKI: ski(r)}
		p.PlatSpec = CertSpec{CN: CNPlatform, Serial: randSerial(r), Win: Window{epoch.Add(-5 * y), epoch.Add(10 * y)}, IsCA: true, PathLen: 0,
			KeyUsage: x509.KeyUsageCertSign | x509.KeyUsageCRLSign, CRLDP: []string{RootCRLURL}, SKI: ski(r)}
		p.ProcSpec = CertSpec{CN: CNProcessor, Serial: randSerial(r), Win: Window{epoch.Add(-5 * y), epoch.Add(10 * y)}, IsCA: true, PathLen: 0,
			KeyUsage: x509.KeyUsageCertSign | x509.KeyUsageCRLSign, CRLDP: []string{RootCRLURL}, SKI: ski(r)}
		p.TcbSpec = CertSpec{CN: CNTcbSigner, Serial: randSerial(r), Win: Window{epoch.Add(-5 * y), epoch.Add(2 * y)}, IsCA: false, PathLen: -1,
			KeyUsage: x509.KeyUsageDigitalSignature | x509.KeyUsageContentCommitment, CRLDP: []string{RootCRLURL}, SKI: ski(r)}
	}
	p.Rebuild()
	return p
}

// Rebuild re-issues all CA certificates from the specs (after a spec was edited).
func (p *PKI) Rebuild() {
	p.Root = Issue(p.RootSpec, p.RootKey, nil, p.RootKey)
	p.Plat = Issue(p.PlatSpec, p.PlatKey, p.Root, p.RootKey)
	p.Proc = Issue(p.ProcSpec, p.ProcKey, p.Root, p.RootKey)
	p.Tcb = Issue(p.TcbSpec, p.TcbKey, p.Root, p.RootKey)
}

// ReissueRoot returns another self-signed certificate of the same root key and
// name with a different validity window (a "copy" as carried in a quote or in an
// issuer-chain header).
func (p *PKI) ReissueRoot(win Window) *Cert {
	s := p.RootSpec
	s.Win = win
	return Issue(s, p.RootKey, nil, p.RootKey)
}

// ReissueRootSpec returns another self-signed certificate of the same root key
// from an edited copy of the root's spec.
func (p *PKI) ReissueRootSpec(edit func(*CertSpec)) *Cert {
	s := p.RootSpec
	edit(&s)
	return Issue(s, p.RootKey, nil, p.RootKey)
}

// SecondTcbSigner issues another TCB-signing certificate (own key and serial) under the root.
func (p *PKI) SecondTcbSigner(r Rand) *Cert {
	s := p.TcbSpec
	s.Serial = randSerial(r)
	s.SKI = ski(r)
	return Issue(s, NewKey(r), p.Root, p.RootKey)
}

// RandSerial draws a serial number.
func RandSerial(r Rand) *big.Int { return randSerial(r) }

// Pool returns a CertPool holding the given certificates.
func Pool(certs ...*Cert) *x509.CertPool {
	cp := x509.NewCertPool()
	for _, c := range certs {
		cp.AddCert(c.X)
	}
	return cp
}

// ---- SGX extension of the PCK certificate (Intel "PCK Certificate and CRL
// Profile Specification", section "Intel SGX PCK Certificate Extensions") -------

var oidSGX = []int{1, 2, 840, 113741, 1, 13, 1}

func sgxOID(suffix ...int) asn1.ObjectIdentifier {
	return append(append(asn1.ObjectIdentifier{}, oidSGX...), suffix...)
}

func der(v any) []byte {
	b, err := asn1.Marshal(v)
	if err != nil {
		panic(err)
	}
	return b
}

// DerSeq wraps already-encoded children in a SEQUENCE.
func DerSeq(children ...[]byte) []byte {
	var body []byte
	for _, c := range children {
		body = append(body, c...)
	}
	return der(asn1.RawValue{Class: asn1.ClassUniversal, Tag: asn1.TagSequence, IsCompound: true, Bytes: body})
}

// SGXExt is the content of the SGX extension.
type SGXExt struct {
	PPID   [16]byte
	Comp   [16]byte // SGX TCB component SVNs 1..16
	PCESVN uint16
	CPUSVN [16]byte
	PCEID  [2]byte
	FMSPC  [6]byte
	// ordering of the top-level elements and of the 18 TCB elements (nil = canonical)
	TopOrder []int
	TcbOrder []int
	Platform bool // platform certificates carry PlatformInstanceID and Configuration as well
}

// DER encodes the extension value.
func (e *SGXExt) DER() []byte {
	tcbElems := make([][]byte, 0, 18)
	for i := 0; i < 16; i++ {
		tcbElems = append(tcbElems, DerSeq(der(sgxOID(2, i+1)), der(int(e.Comp[i]))))
	}
	tcbElems = append(tcbElems, DerSeq(der(sgxOID(2, 17)), der(int(e.PCESVN))))
	tcbElems = append(tcbElems, DerSeq(der(sgxOID(2, 18)), der(e.CPUSVN[:])))
	if e.TcbOrder != nil {
		perm := make([][]byte, len(tcbElems))
		for i, j := range e.TcbOrder {
			perm[i] = tcbElems[j]
		}
		tcbElems = perm
	}
	top := [][]byte{
		DerSeq(der(sgxOID(1)), der(e.PPID[:])),
		DerSeq(der(sgxOID(2)), DerSeq(tcbElems...)),
		DerSeq(der(sgxOID(3)), der(e.PCEID[:])),
		DerSeq(der(sgxOID(4)), der(e.FMSPC[:])),
		DerSeq(der(sgxOID(5)), der(asn1.Enumerated(map[bool]int{false: 0, true: 1}[e.Platform]))),
	}
	if e.Platform {
		top = append(top,
			DerSeq(der(sgxOID(6)), der(make([]byte, 16))),
			DerSeq(der(sgxOID(7)), DerSeq(
				DerSeq(der(sgxOID(7, 1)), der(true)),
				DerSeq(der(sgxOID(7, 2)), der(true)),
				DerSeq(der(sgxOID(7, 3)), der(false)))))
	}
	if e.TopOrder != nil && len(e.TopOrder) == len(top) {
		perm := make([][]byte, len(top))
		for i, j := range e.TopOrder {
			perm[i] = top[j]
		}
		top = perm
	}
	return DerSeq(top...)
}

// Extension wraps the value in the X.509 extension.
func (e *SGXExt) Extension() pkix.Extension {
	return pkix.Extension{Id: sgxOID(), Value: e.DER()}
}

// PCKSpec is the CertSpec of a PCK leaf carrying ext.
func PCKSpec(r Rand, win Window, extValue []byte) CertSpec {
	return CertSpec{CN: CNPCK, Serial: randSerial(r), Win: win, IsCA: false, PathLen: -1,
		KeyUsage: x509.KeyUsageDigitalSignature | x509.KeyUsageContentCommitment,
		CRLDP:    []string{"https://api.trustedservices.intel.com/sgx/certification/v4/pckcrl?ca=platform&encoding=der"},
		SKI:      ski(r), ExtraExt: []pkix.Extension{{Id: sgxOID(), Value: extValue}}}
}

// CRLSpec describes a certificate revocation list.
type CRLSpec struct {
	This, Next time.Time
	Number     int64
	Revoked    []*big.Int
	// RevokedAt is the revocation date written into every entry (zero = This).
	RevokedAt time.Time
}

// MakeCRL signs a CRL in the name of issuer with signKey (which may be foreign).
func MakeCRL(spec CRLSpec, issuer *Cert, signKey *Key) []byte {
	tmpl := &x509.RevocationList{Number: big.NewInt(spec.Number), ThisUpdate: spec.This, NextUpdate: spec.Next, SignatureAlgorithm: x509.ECDSAWithSHA256}
	at := spec.RevokedAt
	if at.IsZero() {
		at = spec.This
	}
	for _, s := range spec.Revoked {
		tmpl.RevokedCertificateEntries = append(tmpl.RevokedCertificateEntries, x509.RevocationListEntry{SerialNumber: s, RevocationTime: at})
	}
	iss := &x509.Certificate{Subject: issuer.X.Subject, RawSubject: issuer.X.RawSubject, SubjectKeyId: issuer.X.SubjectKeyId,
		KeyUsage: x509.KeyUsageCRLSign, PublicKey: &signKey.Priv.PublicKey}
	if len(iss.SubjectKeyId) == 0 {
		iss.SubjectKeyId = []byte{1}
	}
	derBytes, err := x509.CreateRevocationList(nil, tmpl, iss, signKey.Priv)
	if err != nil {
		panic(fmt.Sprintf("world: CreateRevocationList: %v", err))
	}
	return derBytes
}

// NewLookalikeOf generates a hierarchy whose root copies the given real root certificate
// (raw subject, serial number, key identifier, validity, CRL distribution points) but has a
// key of its own: the closest thing to that root an attacker can make.
func NewLookalikeOf(r Rand, label string, real *x509.Certificate, epoch time.Time) *PKI {
	p := NewPKI(r, label, epoch, nil)
	p.RootSpec.RawSubject = real.RawSubject
	p.RootSpec.Serial = real.SerialNumber
	p.RootSpec.SKI = real.SubjectKeyId
	p.RootSpec.Win = Window{real.NotBefore, real.NotAfter}
	p.RootSpec.CRLDP = real.CRLDistributionPoints
	p.Rebuild()
	return p
}
