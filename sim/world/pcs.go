package world

import (
	"encoding/hex"
	"errors"
	"fmt"
	"net/url"
	"strings"
	"sync"
	"time"
)

// The seven TCB statuses of the Intel PCS API.
var Statuses = []string{"UpToDate", "SWHardeningNeeded", "ConfigurationNeeded", "ConfigurationAndSWHardeningNeeded", "OutOfDate", "OutOfDateConfigurationNeeded", "Revoked"}

// TcbLevel is one entry of tcbInfo.tcbLevels.
type TcbLevel struct {
	Sgx    [16]byte
	Pce    uint16
	Tdx    [16]byte
	Status string
	Date   string // tcbDate (informational; "" = a fixed default)
}

// ModLevel is one TCB level of a TDX module identity.
type ModLevel struct {
	Isvsvn uint32
	Status string
	Date   string
}

// ModuleIdentity is one entry of tcbInfo.tdxModuleIdentities.
type ModuleIdentity struct {
	ID       string
	Mrsigner []byte
	Attr     []byte
	Mask     []byte
	Levels   []ModLevel
}

// TcbInfoDoc is the content Intel signs in a TDX TCB Info response.
type TcbInfoDoc struct {
	ID         string
	Version    int
	Issue      time.Time
	Next       time.Time
	Fmspc      string
	PceID      string
	TcbType    int
	EvalNum    int
	ModSigner  []byte // tdxModule.mrsigner (48)
	ModAttr    []byte // tdxModule.attributes (8)
	ModMask    []byte // tdxModule.attributesMask (8)
	Modules    []ModuleIdentity
	Levels     []TcbLevel
	OmitLevels bool // emit no tcbLevels member at all
	UpperHex   bool
	IssueRaw   string // see issueMember
	// Future is appended verbatim before the closing brace: members that today's verifiers do not know
	// (Intel has added members to these documents before), e.g. `,"tcbRecoveryWindow":30`
	Future string
}

// ts writes an instant as RFC 3339 in UTC; a sub-second part is written only when there is one.
func ts(t time.Time) string { return t.UTC().Format(time.RFC3339Nano) }

// issueMember emits the issueDate member: raw == "" the date, "-" no member at all, anything else verbatim
// as the member's value (null, a date in year 1 or 9999, ...).
func issueMember(raw string, t time.Time) string {
	switch raw {
	case "":
		return fmt.Sprintf(`"issueDate":%q,`, ts(t))
	case "-":
		return ""
	}
	return `"issueDate":` + raw + `,`
}

func (d *TcbInfoDoc) hx(b []byte) string {
	s := hex.EncodeToString(b)
	if d.UpperHex {
		s = strings.ToUpper(s)
	}
	return s
}

func comps(c [16]byte) string {
	var sb strings.Builder
	sb.WriteByte('[')
	for i, v := range c {
		if i > 0 {
			sb.WriteByte(',')
		}
		fmt.Fprintf(&sb, `{"svn":%d}`, v)
	}
	sb.WriteByte(']')
	return sb.String()
}

// JSON emits the tcbInfo member exactly as it will be signed.
func (d *TcbInfoDoc) JSON() []byte {
	var sb strings.Builder
	fmt.Fprintf(&sb, `{"id":%q,"version":%d,%s"nextUpdate":%q,"fmspc":%q,"pceId":%q,"tcbType":%d,"tcbEvaluationDataNumber":%d,`,
		d.ID, d.Version, issueMember(d.IssueRaw, d.Issue), ts(d.Next), d.Fmspc, d.PceID, d.TcbType, d.EvalNum)
	fmt.Fprintf(&sb, `"tdxModule":{"mrsigner":%q,"attributes":%q,"attributesMask":%q}`, d.hx(d.ModSigner), d.hx(d.ModAttr), d.hx(d.ModMask))
	if d.Modules != nil {
		sb.WriteString(`,"tdxModuleIdentities":[`)
		for i, m := range d.Modules {
			if i > 0 {
				sb.WriteByte(',')
			}
			fmt.Fprintf(&sb, `{"id":%q,"mrsigner":%q,"attributes":%q,"attributesMask":%q,"tcbLevels":[`, m.ID, d.hx(m.Mrsigner), d.hx(m.Attr), d.hx(m.Mask))
			for j, l := range m.Levels {
				if j > 0 {
					sb.WriteByte(',')
				}
				fmt.Fprintf(&sb, `{"tcb":{"isvsvn":%d},"tcbDate":%q,"tcbStatus":%q}`, l.Isvsvn, TcbDate(l.Date), l.Status)
			}
			sb.WriteString(`]}`)
		}
		sb.WriteString(`]`)
	}
	if !d.OmitLevels {
		sb.WriteString(`,"tcbLevels":[`)
		for i, l := range d.Levels {
			if i > 0 {
				sb.WriteByte(',')
			}
			fmt.Fprintf(&sb, `{"tcb":{"sgxtcbcomponents":%s,"pcesvn":%d,"tdxtcbcomponents":%s},"tcbDate":%q,"tcbStatus":%q}`,
				comps(l.Sgx), l.Pce, comps(l.Tdx), TcbDate(l.Date), l.Status)
		}
		sb.WriteString(`]`)
	}
	sb.WriteString(d.Future)
	sb.WriteString(`}`)
	return []byte(sb.String())
}

// QELevel is one entry of enclaveIdentity.tcbLevels.
type QELevel struct {
	Isvsvn uint32
	Status string
	Date   string
}

// TcbDate renders a tcbDate; the lists the PCS publishes carry one per level, and nothing in
// the properties makes the level order depend on it.
func TcbDate(d string) string {
	if d == "" {
		return "2023-02-15T00:00:00Z"
	}
	return d
}

// RandTcbDate draws an arbitrary tcbDate (so that listed order and date order disagree).
func RandTcbDate(r Rand) string {
	return fmt.Sprintf("20%02d-%02d-%02dT00:00:00Z", 15+r.Draw(10), 1+r.Draw(12), 1+r.Draw(28))
}

// QEIdentityDoc is the content Intel signs in a TD QE Identity response.
type QEIdentityDoc struct {
	ID         string
	Version    int
	Issue      time.Time
	Next       time.Time
	EvalNum    int
	Misc       []byte
	MiscMask   []byte
	Attr       []byte
	AttrMask   []byte
	Mrsigner   []byte
	ProdID     int
	Levels     []QELevel
	OmitLevels bool
	IssueRaw   string // see issueMember
	// Future is appended verbatim before the closing brace: members that today's verifiers do not know
	// (Intel has added members to these documents before), e.g. `,"tcbRecoveryWindow":30`
	Future string
}

// JSON emits the enclaveIdentity member exactly as it will be signed.
func (d *QEIdentityDoc) JSON() []byte {
	var sb strings.Builder
	up := func(b []byte) string { return strings.ToUpper(hex.EncodeToString(b)) }
	fmt.Fprintf(&sb, `{"id":%q,"version":%d,%s"nextUpdate":%q,"tcbEvaluationDataNumber":%d,"miscselect":%q,"miscselectMask":%q,"attributes":%q,"attributesMask":%q,"mrsigner":%q,"isvprodid":%d`,
		d.ID, d.Version, issueMember(d.IssueRaw, d.Issue), ts(d.Next), d.EvalNum, up(d.Misc), up(d.MiscMask), up(d.Attr), up(d.AttrMask), up(d.Mrsigner), d.ProdID)
	if !d.OmitLevels {
		sb.WriteString(`,"tcbLevels":[`)
		for i, l := range d.Levels {
			if i > 0 {
				sb.WriteByte(',')
			}
			fmt.Fprintf(&sb, `{"tcb":{"isvsvn":%d},"tcbDate":%q,"tcbStatus":%q}`, l.Isvsvn, TcbDate(l.Date), l.Status)
		}
		sb.WriteString(`]`)
	}
	sb.WriteString(d.Future)
	sb.WriteString(`}`)
	return []byte(sb.String())
}

// Member is one top-level member of a PCS JSON response.
type Member struct {
	Key string
	Raw []byte // raw JSON value
}

// Envelope emits {"k1":v1,"k2":v2,...} in the given order.
func Envelope(ms ...Member) []byte {
	var sb strings.Builder
	sb.WriteByte('{')
	for i, m := range ms {
		if i > 0 {
			sb.WriteByte(',')
		}
		fmt.Fprintf(&sb, "%q:", m.Key)
		sb.Write(m.Raw)
	}
	sb.WriteByte('}')
	return []byte(sb.String())
}

// SignedBody emits the genuine response body: {"<name>":<member>,"signature":"<hex(r||s)>"}.
func SignedBody(name string, member []byte, signer *Key) []byte {
	return Envelope(Member{name, member}, Member{"signature", []byte(`"` + hex.EncodeToString(signer.Sign64(member)) + `"`)})
}

// IssuerChainHeader encodes certificates the way the PCS does: URL-escaped PEM (space as %20).
func IssuerChainHeader(certs ...*Cert) string { return IssuerChainHeaderEsc(0, certs...) }

// IssuerChainHeaderEsc: the same text in one of the equivalent URL encodings — 0 as Intel's service
// writes it (space %20, newline %0A, + / = escaped), 1 form encoding ('+' for a space, as Go's
// url.QueryEscape and many HTTP stacks write), 2 lower-case hex digits in the escapes.
func IssuerChainHeaderEsc(esc int, certs ...*Cert) string {
	var pemAll []byte
	for _, c := range certs {
		pemAll = append(pemAll, c.PEM()...)
	}
	q := url.QueryEscape(string(pemAll))
	switch esc {
	case 1:
		return q
	case 2:
		b := []byte(strings.ReplaceAll(q, "+", "%20"))
		for i := 0; i+2 < len(b); i++ {
			if b[i] == '%' {
				b[i+1], b[i+2] = lowerHex(b[i+1]), lowerHex(b[i+2])
				i += 2
			}
		}
		return string(b)
	}
	return strings.ReplaceAll(q, "+", "%20")
}

func lowerHex(c byte) byte {
	if c >= 'A' && c <= 'F' {
		return c + 'a' - 'A'
	}
	return c
}

// Header names as a Go net/http client presents them (canonical MIME form).
const (
	HdrTcbInfo = "Tcb-Info-Issuer-Chain"
	HdrQE      = "Sgx-Enclave-Identity-Issuer-Chain"
	HdrPckCrl  = "Sgx-Pck-Crl-Issuer-Chain"
)

// Endpoint is what the simulated PCS answers on one route.
type Endpoint struct {
	Hdr  map[string][]string
	Body []byte
	Err  error
}

// Clone copies an endpoint (deeply enough for mutation).
func (e *Endpoint) Clone() *Endpoint {
	c := &Endpoint{Body: append([]byte(nil), e.Body...), Err: e.Err}
	if e.Hdr != nil {
		c.Hdr = map[string][]string{}
		for k, v := range e.Hdr {
			c.Hdr[k] = append([]string(nil), v...)
		}
	}
	return c
}

// Route kinds (own URL parser below).
const (
	RouteTcb     = "tcb"
	RouteQE      = "qe"
	RoutePckCrl  = "pckcrl"
	RouteRootCrl = "rootcrl"
	RouteOther   = "other"
)

// Request is one recorded fetch.
type Request struct {
	URL   string
	Route string
	Fmspc string // tcb route
	CA    string // pckcrl route
}

// PCS is the simulated Intel Provisioning Certification Service: an
// implementation of trust.HTTPSGetter owned by the simulator.
type PCS struct {
	Tcb     map[string]*Endpoint // by lower-case fmspc
	QE      *Endpoint
	PckCrl  map[string]*Endpoint // by ca
	ByURL   map[string]*Endpoint // root CRL distribution points and anything else
	Log     []Request
	OnFetch func(req Request) // park point / observer (may be nil)
	// Latency, if set, is the simulated service time of the n-th fetch.  It is slept only while
	// InBubble is set (inside a testing/synctest bubble, where sleeping advances the fake clock and
	// costs nothing): the completion order of concurrent fetches, and of a fetch against pure
	// computation, is then decided by these numbers and not by the Go scheduler.
	Latency  func(req Request, n int) time.Duration
	InBubble bool
	// FailFirst: the first FailFirst[route] requests on a route (since ResetTransient) fail with a transport
	// error, later ones are answered — a service that succeeds only the second time.
	FailFirst map[string]int
	seen      map[string]int
	// Editions: the n-th request of a route (since ResetTransient) is answered with the n-th edition listed
	// here, the last one from then on — a cache in front of the service that serves an old edition first.
	Editions map[string][]*Endpoint
	edSeen   map[string]int
	mu       sync.Mutex
}

// ErrTransient is what a request hit by FailFirst returns.
var ErrTransient = errors.New("simulated PCS: connection reset by peer (transient)")

// ResetTransient starts the FailFirst count afresh (before each verification that is to meet the same fault).
func (p *PCS) ResetTransient() {
	p.mu.Lock()
	p.seen = nil
	p.edSeen = nil
	p.mu.Unlock()
}

// LatencyProfile returns a Latency function: each URL gets a service time from a fixed table, chosen by the
// seed (of two URLs fetched concurrently either may answer first, depending on the world).
func LatencyProfile(seed int) func(Request, int) time.Duration {
	table := []time.Duration{150 * time.Millisecond, time.Millisecond, 700 * time.Millisecond, 20 * time.Millisecond, 2500 * time.Millisecond, 11 * time.Second, 40 * time.Millisecond}
	// by URL, not by arrival order: the arrival order of fetches issued concurrently is not ours to decide
	return func(rq Request, _ int) time.Duration {
		h := uint32(2166136261)
		for i := 0; i < len(rq.URL); i++ {
			h = (h ^ uint32(rq.URL[i])) * 16777619
		}
		return table[(uint32(seed)*7+h%1000)%uint32(len(table))]
	}
}

// NewPCS returns an empty server.
func NewPCS() *PCS {
	return &PCS{Tcb: map[string]*Endpoint{}, PckCrl: map[string]*Endpoint{}, ByURL: map[string]*Endpoint{}}
}

// ParseURL classifies a request URL (independent of the repo's URL builders;
// from the Intel PCS API v4 documentation).
func ParseURL(raw string) Request {
	req := Request{URL: raw, Route: RouteOther}
	u, err := url.Parse(raw)
	if err != nil {
		return req
	}
	if u.Scheme == "https" && u.Host == "api.trustedservices.intel.com" {
		switch u.Path {
		case "/tdx/certification/v4/tcb":
			req.Route = RouteTcb
			req.Fmspc = u.Query().Get("fmspc")
		case "/tdx/certification/v4/qe/identity":
			req.Route = RouteQE
		case "/sgx/certification/v4/pckcrl":
			if u.Query().Get("encoding") == "der" {
				req.Route = RoutePckCrl
				req.CA = u.Query().Get("ca")
			}
		}
	}
	return req
}

// ErrNotFound is returned for unknown routes.
var ErrNotFound = errors.New("simulated PCS: 404 not found")

// Get implements trust.HTTPSGetter.
func (p *PCS) Get(raw string) (map[string][]string, []byte, error) {
	req := ParseURL(raw)
	var ep *Endpoint
	switch req.Route {
	case RouteTcb:
		ep = p.Tcb[strings.ToLower(req.Fmspc)]
	case RouteQE:
		ep = p.QE
	case RoutePckCrl:
		ep = p.PckCrl[req.CA]
	default:
		ep = p.ByURL[raw]
		if ep != nil {
			req.Route = RouteRootCrl
		}
	}
	p.mu.Lock()
	n := len(p.Log)
	p.Log = append(p.Log, req)
	transient := false
	if p.FailFirst[req.Route] > 0 {
		if p.seen == nil {
			p.seen = map[string]int{}
		}
		p.seen[req.Route]++
		transient = p.seen[req.Route] <= p.FailFirst[req.Route]
	}
	if eds := p.Editions[req.Route]; len(eds) > 0 {
		if p.edSeen == nil {
			p.edSeen = map[string]int{}
		}
		i := p.edSeen[req.Route]
		p.edSeen[req.Route]++
		if i >= len(eds) {
			i = len(eds) - 1
		}
		ep = eds[i]
	}
	p.mu.Unlock()
	if p.OnFetch != nil {
		p.OnFetch(req)
	}
	if p.Latency != nil && p.InBubble {
		time.Sleep(p.Latency(req, n))
	}
	if transient {
		return nil, nil, ErrTransient
	}
	if ep == nil {
		return nil, nil, ErrNotFound
	}
	if ep.Err != nil {
		return nil, nil, ep.Err
	}
	// fresh copies: the verifier may not rely on, or damage, server state
	var h map[string][]string
	if ep.Hdr != nil {
		h = map[string][]string{}
		for k, v := range ep.Hdr {
			h[k] = append([]string(nil), v...)
		}
	}
	return h, append([]byte(nil), ep.Body...), nil
}

// CountRoute counts recorded requests of a route.
func (p *PCS) CountRoute(route string) int {
	n := 0
	for _, r := range p.Log {
		if r.Route == route {
			n++
		}
	}
	return n
}
