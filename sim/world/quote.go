package world

import (
	"crypto/sha256"
	"encoding/binary"

	pb "github.com/google/go-tdx-guest/proto/tdx"
)

// Layout of the Intel TDX DCAP quote, version 4 (Intel "TDX DCAP Quoting Library
// API", appendix "Quote format").  Transcribed from the specification, NOT from
// the repo's abi constants: (offset, length) of every field.
const (
	HeaderLen   = 48
	BodyLen     = 584
	SigDataLenO = HeaderLen + BodyLen // 632: u32 length of the signature data
	SigDataO    = SigDataLenO + 4     // 636
	QEReportLen = 384
)

// QEReport is the SGX enclave report of the quoting enclave (384 bytes).
type QEReport struct {
	CPUSVN     [16]byte
	MiscSelect uint32
	Rsv1       [28]byte
	Attributes [16]byte
	MrEnclave  [32]byte
	Rsv2       [32]byte
	MrSigner   [32]byte
	Rsv3       [96]byte
	IsvProdID  uint16
	IsvSvn     uint16
	Rsv4       [60]byte
	ReportData [64]byte
}

// Bytes serialises the report.
func (q *QEReport) Bytes() []byte {
	b := make([]byte, 0, QEReportLen)
	b = append(b, q.CPUSVN[:]...)
	b = binary.LittleEndian.AppendUint32(b, q.MiscSelect)
	b = append(b, q.Rsv1[:]...)
	b = append(b, q.Attributes[:]...)
	b = append(b, q.MrEnclave[:]...)
	b = append(b, q.Rsv2[:]...)
	b = append(b, q.MrSigner[:]...)
	b = append(b, q.Rsv3[:]...)
	b = binary.LittleEndian.AppendUint16(b, q.IsvProdID)
	b = binary.LittleEndian.AppendUint16(b, q.IsvSvn)
	b = append(b, q.Rsv4[:]...)
	b = append(b, q.ReportData[:]...)
	return b
}

// Quote is a structured v4 quote as the platform produces it.
type Quote struct {
	// header
	Version  uint16
	AKType   uint16
	TeeType  uint32
	PceSvn   [2]byte // bytes 8..10 ("reserved"/PCE SVN)
	QeSvn    [2]byte // bytes 10..12 ("reserved"/QE SVN)
	QEVendor [16]byte
	UserData [20]byte
	// TD quote body
	TeeTcbSvn     [16]byte
	MrSeam        [48]byte
	MrSignerSeam  [48]byte
	SeamAttr      [8]byte
	TdAttr        [8]byte
	Xfam          [8]byte
	MrTd          [48]byte
	MrConfigID    [48]byte
	MrOwner       [48]byte
	MrOwnerConfig [48]byte
	Rtmr          [4][48]byte
	ReportData    [64]byte
	// signature data
	Sig    [64]byte
	AK     [64]byte
	QE     QEReport
	QESig  [64]byte
	Auth   []byte
	Chain  []byte // PEM: leaf || intermediate || root
	Extra  []byte // bytes after the signature data
	CDType uint16 // outer certification data type (6)
	PCType uint16 // inner certification data type (5)
}

// HeaderBytes serialises the 48-byte header.
func (q *Quote) HeaderBytes() []byte {
	b := make([]byte, 0, HeaderLen)
	b = binary.LittleEndian.AppendUint16(b, q.Version)
	b = binary.LittleEndian.AppendUint16(b, q.AKType)
	b = binary.LittleEndian.AppendUint32(b, q.TeeType)
	b = append(b, q.PceSvn[:]...)
	b = append(b, q.QeSvn[:]...)
	b = append(b, q.QEVendor[:]...)
	b = append(b, q.UserData[:]...)
	return b
}

// BodyBytes serialises the 584-byte TD quote body.
func (q *Quote) BodyBytes() []byte {
	b := make([]byte, 0, BodyLen)
	b = append(b, q.TeeTcbSvn[:]...)
	b = append(b, q.MrSeam[:]...)
	b = append(b, q.MrSignerSeam[:]...)
	b = append(b, q.SeamAttr[:]...)
	b = append(b, q.TdAttr[:]...)
	b = append(b, q.Xfam[:]...)
	b = append(b, q.MrTd[:]...)
	b = append(b, q.MrConfigID[:]...)
	b = append(b, q.MrOwner[:]...)
	b = append(b, q.MrOwnerConfig[:]...)
	for i := range q.Rtmr {
		b = append(b, q.Rtmr[i][:]...)
	}
	b = append(b, q.ReportData[:]...)
	return b
}

// Region is a named span of the raw quote.
type Region struct {
	Name     string
	Off, Len int
}

// Bytes serialises the whole quote and returns the region map of the result.
func (q *Quote) Bytes() []byte {
	b, _ := q.BytesRegions()
	return b
}

// BytesRegions serialises the quote and describes where each part went.
func (q *Quote) BytesRegions() ([]byte, []Region) {
	var regs []Region
	var b []byte
	add := func(name string, p []byte) {
		regs = append(regs, Region{name, len(b), len(p)})
		b = append(b, p...)
	}
	add("header", q.HeaderBytes())
	add("body", q.BodyBytes())
	inner := 384 + 64 + 2 + len(q.Auth) + 2 + 4 + len(q.Chain) // QE report cert data
	sigData := 64 + 64 + 2 + 4 + inner
	add("sigdatalen", binary.LittleEndian.AppendUint32(nil, uint32(sigData)))
	add("sig", q.Sig[:])
	add("ak", q.AK[:])
	add("cdtype", binary.LittleEndian.AppendUint16(nil, q.CDType))
	add("cdsize", binary.LittleEndian.AppendUint32(nil, uint32(inner)))
	add("qereport", q.QE.Bytes())
	add("qesig", q.QESig[:])
	add("authlen", binary.LittleEndian.AppendUint16(nil, uint16(len(q.Auth))))
	add("auth", q.Auth)
	add("pctype", binary.LittleEndian.AppendUint16(nil, q.PCType))
	add("pcsize", binary.LittleEndian.AppendUint32(nil, uint32(len(q.Chain))))
	add("chain", q.Chain)
	add("extra", q.Extra)
	return b, regs
}

// RegionOf names the region containing byte offset off.
func RegionOf(regs []Region, off int) string {
	for _, r := range regs {
		if off >= r.Off && off < r.Off+r.Len {
			return r.Name
		}
	}
	return "?"
}

// Clone deep-copies the quote.
func (q *Quote) Clone() *Quote {
	c := *q
	c.Auth = append([]byte(nil), q.Auth...)
	c.Chain = append([]byte(nil), q.Chain...)
	c.Extra = append([]byte(nil), q.Extra...)
	return &c
}

// SignedMessage is header||body, what the attestation key signs.
func (q *Quote) SignedMessage() []byte { return append(q.HeaderBytes(), q.BodyBytes()...) }

// BindAK sets the QE report-data to SHA-256(AK || auth data) || 0^32 (link L2).
func (q *Quote) BindAK() {
	h := sha256.Sum256(append(append([]byte(nil), q.AK[:]...), q.Auth...))
	var rd [64]byte
	copy(rd[:], h[:])
	q.QE.ReportData = rd
}

// SignBody signs header||body with ak (link L1).
func (q *Quote) SignBody(ak *Key) { copy(q.Sig[:], ak.Sign64(q.SignedMessage())) }

// SignQE signs the QE report with the PCK key (link L3).
func (q *Quote) SignQE(pck *Key) { copy(q.QESig[:], pck.Sign64(q.QE.Bytes())) }

// Proto builds the protobuf form field by field, independently of the repo's
// parser.  poison > 0 puts every bytes field into a larger backing array whose
// spare capacity is filled with 0xA5 (so writes behind a field are observable).
func (q *Quote) Proto(poison int) *pb.QuoteV4 {
	mk := func(b []byte) []byte {
		if poison <= 0 {
			return append([]byte(nil), b...)
		}
		buf := make([]byte, len(b), len(b)+poison)
		copy(buf, b)
		sp := buf[len(b):cap(buf)]
		for i := range sp {
			sp[i] = 0xA5
		}
		return buf
	}
	inner := 384 + 64 + 2 + len(q.Auth) + 2 + 4 + len(q.Chain)
	m := &pb.QuoteV4{
		Header: &pb.Header{Version: uint32(q.Version), AttestationKeyType: uint32(q.AKType), TeeType: q.TeeType,
			PceSvn: mk(q.PceSvn[:]), QeSvn: mk(q.QeSvn[:]), QeVendorId: mk(q.QEVendor[:]), UserData: mk(q.UserData[:])},
		TdQuoteBody: &pb.TDQuoteBody{TeeTcbSvn: mk(q.TeeTcbSvn[:]), MrSeam: mk(q.MrSeam[:]), MrSignerSeam: mk(q.MrSignerSeam[:]),
			SeamAttributes: mk(q.SeamAttr[:]), TdAttributes: mk(q.TdAttr[:]), Xfam: mk(q.Xfam[:]), MrTd: mk(q.MrTd[:]),
			MrConfigId: mk(q.MrConfigID[:]), MrOwner: mk(q.MrOwner[:]), MrOwnerConfig: mk(q.MrOwnerConfig[:]),
			Rtmrs: [][]byte{mk(q.Rtmr[0][:]), mk(q.Rtmr[1][:]), mk(q.Rtmr[2][:]), mk(q.Rtmr[3][:])}, ReportData: mk(q.ReportData[:])},
		SignedDataSize: uint32(64 + 64 + 2 + 4 + inner),
		SignedData: &pb.Ecdsa256BitQuoteV4AuthData{
			Signature:           mk(q.Sig[:]),
			EcdsaAttestationKey: mk(q.AK[:]),
			CertificationData: &pb.CertificationData{
				CertificateDataType: uint32(q.CDType),
				Size:                uint32(inner),
				QeReportCertificationData: &pb.QEReportCertificationData{
					QeReport: &pb.EnclaveReport{CpuSvn: mk(q.QE.CPUSVN[:]), MiscSelect: q.QE.MiscSelect, Reserved1: mk(q.QE.Rsv1[:]),
						Attributes: mk(q.QE.Attributes[:]), MrEnclave: mk(q.QE.MrEnclave[:]), Reserved2: mk(q.QE.Rsv2[:]), MrSigner: mk(q.QE.MrSigner[:]),
						Reserved3: mk(q.QE.Rsv3[:]), IsvProdId: uint32(q.QE.IsvProdID), IsvSvn: uint32(q.QE.IsvSvn), Reserved4: mk(q.QE.Rsv4[:]),
						ReportData: mk(q.QE.ReportData[:])},
					QeReportSignature:       mk(q.QESig[:]),
					QeAuthData:              &pb.QeAuthData{ParsedDataSize: uint32(len(q.Auth)), Data: mk(q.Auth)},
					PckCertificateChainData: &pb.PCKCertificateChainData{CertificateDataType: uint32(q.PCType), Size: uint32(len(q.Chain)), PckCertChain: mk(q.Chain)},
				},
			},
		},
	}
	if len(q.Extra) > 0 {
		m.ExtraBytes = mk(q.Extra)
	}
	return m
}

// SetRegion overwrites one of the fixed-layout regions of the structured quote
// from raw bytes (the inverse of the emitters above, for the regions C01 names).
func (q *Quote) SetRegion(name string, b []byte) {
	switch name {
	case "header":
		q.Version = binary.LittleEndian.Uint16(b[0:2])
		q.AKType = binary.LittleEndian.Uint16(b[2:4])
		q.TeeType = binary.LittleEndian.Uint32(b[4:8])
		copy(q.PceSvn[:], b[8:10])
		copy(q.QeSvn[:], b[10:12])
		copy(q.QEVendor[:], b[12:28])
		copy(q.UserData[:], b[28:48])
	case "body":
		o := 0
		take := func(dst []byte) { copy(dst, b[o:o+len(dst)]); o += len(dst) }
		take(q.TeeTcbSvn[:])
		take(q.MrSeam[:])
		take(q.MrSignerSeam[:])
		take(q.SeamAttr[:])
		take(q.TdAttr[:])
		take(q.Xfam[:])
		take(q.MrTd[:])
		take(q.MrConfigID[:])
		take(q.MrOwner[:])
		take(q.MrOwnerConfig[:])
		for i := range q.Rtmr {
			take(q.Rtmr[i][:])
		}
		take(q.ReportData[:])
	case "sig":
		copy(q.Sig[:], b)
	case "ak":
		copy(q.AK[:], b)
	case "qereport":
		o := 0
		take := func(dst []byte) { copy(dst, b[o:o+len(dst)]); o += len(dst) }
		take(q.QE.CPUSVN[:])
		q.QE.MiscSelect = binary.LittleEndian.Uint32(b[o : o+4])
		o += 4
		take(q.QE.Rsv1[:])
		take(q.QE.Attributes[:])
		take(q.QE.MrEnclave[:])
		take(q.QE.Rsv2[:])
		take(q.QE.MrSigner[:])
		take(q.QE.Rsv3[:])
		q.QE.IsvProdID = binary.LittleEndian.Uint16(b[o : o+2])
		q.QE.IsvSvn = binary.LittleEndian.Uint16(b[o+2 : o+4])
		o += 4
		take(q.QE.Rsv4[:])
		take(q.QE.ReportData[:])
	case "qesig":
		copy(q.QESig[:], b)
	case "auth":
		q.Auth = append([]byte(nil), b...)
	case "chain":
		q.Chain = append([]byte(nil), b...)
	case "extra":
		q.Extra = append([]byte(nil), b...)
	default:
		panic("world: SetRegion " + name)
	}
}

// FromRaw rebuilds a structured quote from mutated raw bytes whose region sizes
// are those of regs (i.e. no length field was changed).
func (q *Quote) FromRaw(raw []byte, regs []Region) *Quote {
	c := q.Clone()
	for _, rg := range regs {
		switch rg.Name {
		case "header", "body", "sig", "ak", "qereport", "qesig", "auth", "chain", "extra":
			c.SetRegion(rg.Name, raw[rg.Off:rg.Off+rg.Len])
		}
	}
	return c
}
