package world

import (
	"crypto/x509"
	"encoding/binary"
	"encoding/hex"
	"fmt"
	"math/big"
	"strings"
	"time"
)

// Cfg selects the shape of a generated world; zero values mean "let the tape decide".
type Cfg struct {
	Epoch       time.Time
	Processor   int // 0 tape (mostly platform), 1 platform, 2 processor
	AuthLen     int // 0 default 32; -1 empty; >0 exact
	ExtraBytes  int
	TrailingNul int // 0 tape, 1 no, 2 yes
	NLevels     int // 0 tape
	Module      int // 0 tape; -1 TEE_TCB_SVN[1]=0; 1..9 module version
	PermuteExt  bool
	SpreadTimes bool // five verification instants pairwise distinct, anywhere inside all windows
	NetLat      int  // 0 tape; -1 instant network; n>0 latency profile n
	AKI         int  // 0 tape; -1 key identifier (usual); 1..3 see CertSpec.AKI
	NoPCS       bool // skip collateral generation (faster) when only the base level is used
}

// Platform is a TDX platform with its PCK key and quoting enclave.
type Platform struct {
	PCKKey *Key
	AK     *Key
	Ext    SGXExt
	PCK    *Cert
	PCKSp  CertSpec
	// TD / SEAM values reported in quotes
	Tee          [16]byte
	MrSeam       [48]byte
	MrSignerSeam [48]byte
	SeamAttr     [8]byte
	// quoting enclave identity
	QE QEReport
}

// World is one complete, honest set of parties around one quote.
type World struct {
	Cfg   Cfg
	Epoch time.Time
	A     *PKI
	CA    *Cert // the intermediate that issued the PCK certificate
	CAKey *Key
	CAID  string // "platform" | "processor"
	// copies of the root certificate as carried in the quote and in the issuer-chain headers
	RootInQuote, RootInTcb, RootInQE, RootInCrl *Cert
	// copies of the signer certificates carried in headers
	TcbSignerInTcb, TcbSignerInQE, CAInCrl *Cert
	P                                      *Platform
	Quote                                  *Quote
	Tcb                                    *TcbInfoDoc
	QE                                     *QEIdentityDoc
	PckCrl, RootCrl                        CRLSpec
	PckCrlDER, RootCrlDER                  []byte
	PCS                                    *PCS
	Pool                                   *x509.CertPool
	// five instants: PckCertChain, TcbInfo, QeIdentity, PckCrl, RootCaCrl
	Times [5]time.Time
	// ground truth for the reference model
	// SerialCoincidence: the CRLs list other issuers' certificates that share a serial number with
	// this world's certificates (still an honest world: nothing of it is revoked)
	SerialCoincidence bool
	// Coincide: 0 all quote fields independent; 1 owner/config identifiers and RTMR2/3 zero; 2 equal-sized
	// neighbouring fields equal; 3 one pair of 48-byte TD fields equal
	Coincide     int
	NetLat       int  // 0: fetches are instant; n>0: PCS latency profile n (see LatencyProfile)
	FutureFields bool // the signed documents carry members unknown to today's verifiers
	HdrEsc       int  // which of the equivalent URL encodings the PCS uses for issuer-chain headers
	AKI          int  // CertSpec.AKI form used by every non-root certificate of PKI A
	LevelIdx     int  // index of the TCB level the platform matches (honest: UpToDate)
	ModLevelIdx  int  // index of the matching module level, -1 when the module branch is off
}

// Indexes into World.Times.
const (
	TPck = iota
	TTcb
	TQE
	TPckCrl
	TRootCrl
)

const day = 24 * time.Hour

// NewWorld draws an honest world from the tape.
func NewWorld(r Rand, cfg Cfg) *World {
	w := &World{Cfg: cfg}
	w.Epoch = cfg.Epoch
	if w.Epoch.IsZero() {
		w.Epoch = time.Date(2024, 3, 1, 12, 0, 0, 0, time.UTC).Add(time.Duration(r.Draw(400)) * day)
	}
	w.A = NewPKI(r, "A", w.Epoch, nil)
	// how certificates name their issuer: by key identifier (Intel's practice), not at all, or by
	// issuer name + serial — all legal (RFC 5280 4.2.1.1) and all the same certificates to a verifier
	w.AKI = cfg.AKI
	if w.AKI == 0 && r.Chance(1, 4) {
		w.AKI = 1 + r.Draw(3)
	}
	if w.AKI < 0 {
		w.AKI = 0
	}
	if w.AKI != 0 {
		w.A.PlatSpec.AKI, w.A.ProcSpec.AKI, w.A.TcbSpec.AKI = w.AKI, w.AKI, w.AKI
		w.A.Rebuild()
	}
	proc := cfg.Processor == 2 || (cfg.Processor == 0 && r.Chance(1, 8))
	if proc {
		w.CA, w.CAKey, w.CAID = w.A.Proc, w.A.ProcKey, "processor"
	} else {
		w.CA, w.CAKey, w.CAID = w.A.Plat, w.A.PlatKey, "platform"
	}
	w.RootInQuote, w.RootInTcb, w.RootInQE, w.RootInCrl = w.A.Root, w.A.Root, w.A.Root, w.A.Root
	w.TcbSignerInTcb, w.TcbSignerInQE, w.CAInCrl = w.A.Tcb, w.A.Tcb, w.CA
	w.Pool = Pool(w.A.Root)

	// ---- platform
	p := &Platform{PCKKey: NewKey(r), AK: NewKey(r)}
	w.P = p
	rb := r.Bytes(16 + 16 + 6 + 2 + 16 + 16)
	copy(p.Ext.PPID[:], rb[0:16])
	for i := 0; i < 16; i++ {
		p.Ext.Comp[i] = rb[16+i] % 200
	}
	copy(p.Ext.FMSPC[:], rb[32:38])
	copy(p.Ext.PCEID[:], rb[38:40])
	copy(p.Ext.CPUSVN[:], rb[40:56])
	p.Ext.PCESVN = uint16(1 + r.Draw(60000))
	p.Ext.Platform = !proc
	if cfg.PermuteExt || r.Chance(1, 3) {
		n := 5
		if p.Ext.Platform {
			n = 7
		}
		p.Ext.TopOrder = r.Perm(n)
		p.Ext.TcbOrder = r.Perm(18)
	}
	tb := r.Bytes(16 + 48 + 48 + 8)
	for i := 0; i < 16; i++ {
		p.Tee[i] = tb[i] % 200
	}
	switch {
	case cfg.Module == -1:
		p.Tee[1] = 0
	case cfg.Module >= 1:
		p.Tee[1] = byte(cfg.Module)
	default:
		if r.Bool() {
			p.Tee[1] = 0
		} else {
			p.Tee[1] = byte(1 + r.Draw(9))
		}
	}
	copy(p.MrSeam[:], tb[16:64])
	copy(p.MrSignerSeam[:], tb[64:112])
	copy(p.SeamAttr[:], tb[112:120])
	qb := r.Bytes(16 + 4 + 16 + 32 + 32 + 4)
	copy(p.QE.CPUSVN[:], qb[0:16])
	p.QE.MiscSelect = binary.LittleEndian.Uint32(qb[16:20])
	copy(p.QE.Attributes[:], qb[20:36])
	copy(p.QE.MrEnclave[:], qb[36:68])
	copy(p.QE.MrSigner[:], qb[68:100])
	p.QE.IsvProdID = binary.LittleEndian.Uint16(qb[100:102])
	p.QE.IsvSvn = uint16(1 + r.Draw(60000))
	y := 365 * day
	p.PCKSp = PCKSpec(r, Window{w.Epoch.Add(-1 * y), w.Epoch.Add(6 * y)}, nil)
	p.PCKSp.AKI = w.AKI
	if w.AKI == AKIAbsent {
		// Intel's PCK profile fixes the leaf's extension set (the library counts six): the leaf keeps an
		// authorityKeyIdentifier, in the issuer+serial form
		p.PCKSp.AKI = AKIIssuerSerial
	}
	if proc {
		p.PCKSp.CRLDP = []string{"https://api.trustedservices.intel.com/sgx/certification/v4/pckcrl?ca=processor&encoding=der"}
	}

	// ---- quote contents
	q := &Quote{Version: 4, AKType: 2, TeeType: 0x81, CDType: 6, PCType: 5}
	w.Quote = q
	hb := r.Bytes(2 + 2 + 16 + 20)
	copy(q.PceSvn[:], hb[0:2])
	copy(q.QeSvn[:], hb[2:4])
	copy(q.QEVendor[:], hb[4:20])
	copy(q.UserData[:], hb[20:40])
	q.TeeTcbSvn, q.MrSeam, q.MrSignerSeam, q.SeamAttr = p.Tee, p.MrSeam, p.MrSignerSeam, p.SeamAttr
	bb := r.Bytes(8 + 8 + 48*4 + 48*4 + 64)
	// TD_ATTRIBUTES and XFAM inside the architecturally allowed bit sets (TDX module spec)
	ta := binary.LittleEndian.Uint64(bb[0:8]) & (1 | 1<<28 | 1<<30 | 1<<63)
	binary.LittleEndian.PutUint64(q.TdAttr[:], ta)
	xf := binary.LittleEndian.Uint64(bb[8:16])&0x0006DBE7 | 0x3
	binary.LittleEndian.PutUint64(q.Xfam[:], xf)
	copy(q.MrTd[:], bb[16:64])
	copy(q.MrConfigID[:], bb[64:112])
	copy(q.MrOwner[:], bb[112:160])
	copy(q.MrOwnerConfig[:], bb[160:208])
	for i := 0; i < 4; i++ {
		copy(q.Rtmr[i][:], bb[208+48*i:256+48*i])
	}
	copy(q.ReportData[:], bb[400:464])
	// field coincidences: real TDs mostly report all-zero owner / configuration identifiers and unused
	// registers, so that equal-sized neighbouring fields carry the same value.  A verifier that reads one
	// field where it means the other is invisible on fully random quotes and on such quotes only here.
	f48 := []*[48]byte{&q.MrTd, &q.MrConfigID, &q.MrOwner, &q.MrOwnerConfig, &q.Rtmr[0], &q.Rtmr[1], &q.Rtmr[2], &q.Rtmr[3]}
	switch w.Coincide = r.Draw(4); w.Coincide {
	case 1:
		for _, f := range f48[1:4] {
			*f = [48]byte{}
		}
		q.Rtmr[2], q.Rtmr[3] = [48]byte{}, [48]byte{}
	case 2:
		for _, f := range f48[1:] {
			*f = q.MrTd
		}
		p.MrSignerSeam = p.MrSeam
		q.MrSignerSeam = p.MrSeam
		p.QE.MrEnclave = p.QE.MrSigner
		q.QeSvn = q.PceSvn
		copy(q.ReportData[32:], q.ReportData[:32])
	case 3:
		i := r.Draw(len(f48))
		j := (i + 1 + r.Draw(len(f48)-1)) % len(f48)
		*f48[j] = *f48[i]
	}
	switch {
	case cfg.AuthLen == -1:
		q.Auth = []byte{}
	case cfg.AuthLen > 0:
		q.Auth = r.Bytes(cfg.AuthLen)
	default:
		q.Auth = r.Bytes(32)
	}
	if cfg.ExtraBytes > 0 {
		q.Extra = r.Bytes(cfg.ExtraBytes)
	}
	q.QE = p.QE

	// ---- collateral contents
	if !cfg.NoPCS {
		w.HdrEsc = []int{0, 0, 1, 2}[r.Draw(4)]
		// in a third of the worlds the signed documents carry members that the library does not know yet
		if r.Chance(1, 3) {
			w.FutureFields = true
		}
		// a third of the worlds have a network in which every fetch takes (simulated) time
		if cfg.NetLat > 0 {
			w.NetLat = cfg.NetLat
		} else if cfg.NetLat == 0 && r.Chance(1, 3) {
			w.NetLat = 1 + r.Draw(7)
		}
		w.genCollateral(r)
	}
	// ---- times
	for i := range w.Times {
		w.Times[i] = w.Epoch
	}
	if cfg.SpreadTimes {
		used := map[int]bool{}
		for i := range w.Times {
			off := r.Draw(18*24*60) - 3*24*60 // minutes in [-3d, +15d)
			for used[off] {
				off++
			}
			used[off] = true
			w.Times[i] = w.Epoch.Add(time.Duration(off) * time.Minute)
		}
	}
	nul := cfg.TrailingNul == 2 || (cfg.TrailingNul == 0 && r.Chance(1, 3))
	w.Build(nul)
	return w
}

func (w *World) genCollateral(r Rand) {
	p := w.P
	// TCB Info
	d := &TcbInfoDoc{ID: "TDX", Version: 3, Issue: w.Epoch.Add(-10 * day), Next: w.Epoch.Add(20 * day), TcbType: 0, EvalNum: 1 + r.Draw(30)}
	d.UpperHex = r.Bool()
	d.Fmspc = hex.EncodeToString(p.Ext.FMSPC[:])
	if d.UpperHex {
		d.Fmspc = strings.ToUpper(d.Fmspc)
	}
	d.PceID = hex.EncodeToString(p.Ext.PCEID[:])
	d.ModSigner = append([]byte(nil), p.MrSignerSeam[:]...)
	d.ModMask = r.Bytes(8)
	d.ModAttr = and(p.SeamAttr[:], d.ModMask)
	n := w.Cfg.NLevels
	if n == 0 {
		n = 1 + r.Draw(4)
	}
	m := r.Draw(n)
	w.LevelIdx = m
	start := 0
	if p.Tee[1] != 0 {
		start = 2
	}
	for i := 0; i < n; i++ {
		var l TcbLevel
		switch {
		case i < m: // must NOT match: exceed the platform in one tape-chosen comparison
			l = w.levelAtOrBelow(r)
			switch r.Draw(3) {
			case 0:
				j := r.Draw(16)
				l.Sgx[j] = p.Ext.Comp[j] + 1 + byte(r.Draw(int(255-p.Ext.Comp[j])))
			case 1:
				l.Pce = p.Ext.PCESVN + 1 + uint16(r.Draw(int(65535-p.Ext.PCESVN)))
			default:
				j := start + r.Draw(16-start)
				l.Tdx[j] = p.Tee[j] + 1 + byte(r.Draw(int(255-p.Tee[j])))
			}
			l.Status = Statuses[r.Draw(len(Statuses))]
		case i == m:
			l = w.levelAtOrBelow(r)
			if r.Bool() { // exactly at the platform's values
				l.Sgx, l.Pce = p.Ext.Comp, p.Ext.PCESVN
				for j := start; j < 16; j++ {
					l.Tdx[j] = p.Tee[j]
				}
			}
			l.Status = "UpToDate"
		default:
			l = w.levelAtOrBelow(r)
			l.Status = Statuses[r.Draw(len(Statuses))]
		}
		if start == 2 && r.Bool() {
			// with the module branch on, components 0 and 1 are not compared: make them exceed
			l.Tdx[0], l.Tdx[1] = 255, 255
		}
		l.Date = RandTcbDate(r)
		d.Levels = append(d.Levels, l)
	}
	w.ModLevelIdx = -1
	if p.Tee[1] != 0 {
		// the module identity for this version, among a few others
		nmod := 1 + r.Draw(3)
		at := r.Draw(nmod)
		for k := 0; k < nmod; k++ {
			mi := ModuleIdentity{Mrsigner: append([]byte(nil), p.MrSignerSeam[:]...), Mask: d.ModMask, Attr: d.ModAttr}
			if k == at {
				mi.ID = fmt.Sprintf("TDX_%02d", p.Tee[1])
				nl := 1 + r.Draw(3)
				ml := r.Draw(nl)
				w.ModLevelIdx = ml
				for i := 0; i < nl; i++ {
					var lv ModLevel
					switch {
					case i < ml:
						lv = ModLevel{uint32(p.Tee[0]) + 1 + uint32(r.Draw(50)), Statuses[r.Draw(len(Statuses))], ""}
						if r.Chance(1, 3) {
							// the JSON number is 32 bits wide, the module's SVN one byte: never reached
							lv.Isvsvn = uint32(256*(1+r.Draw(3))) + uint32(r.Draw(int(p.Tee[0])+1))
						}
					case i == ml:
						lv = ModLevel{uint32(r.Draw(int(p.Tee[0]) + 1)), "UpToDate", ""}
						if r.Bool() {
							lv.Isvsvn = uint32(p.Tee[0])
						}
					default:
						lv = ModLevel{uint32(r.Draw(int(p.Tee[0]) + 1)), Statuses[r.Draw(len(Statuses))], ""}
					}
					lv.Date = RandTcbDate(r)
					mi.Levels = append(mi.Levels, lv)
				}
			} else {
				// another version (never the platform's)
				v := 1 + (int(p.Tee[1])+k+at+1)%9
				if byte(v) == p.Tee[1] {
					v = 1 + v%9
				}
				if byte(v) == p.Tee[1] {
					continue
				}
				mi.ID = fmt.Sprintf("TDX_%02d", v)
				dup := false
				for _, o := range d.Modules {
					if o.ID == mi.ID {
						dup = true
					}
				}
				if dup {
					continue
				}
				mi.Levels = []ModLevel{{uint32(r.Draw(10)), Statuses[r.Draw(len(Statuses))], ""}}
			}
			d.Modules = append(d.Modules, mi)
		}
	}
	if w.FutureFields {
		d.Future = `,"tcbRecoveryWindowDays":30,"advisoryDetails":[{"id":"INTEL-SA-00000","severity":"low"}]`
	}
	w.Tcb = d

	// QE Identity
	qe := &QEIdentityDoc{ID: "TD_QE", Version: 2, Issue: w.Epoch.Add(-9 * day), Next: w.Epoch.Add(21 * day), EvalNum: d.EvalNum}
	qe.MiscMask = r.Bytes(4)
	var misc [4]byte
	binary.LittleEndian.PutUint32(misc[:], p.QE.MiscSelect)
	qe.Misc = and(misc[:], qe.MiscMask)
	qe.AttrMask = r.Bytes(16)
	qe.Attr = and(p.QE.Attributes[:], qe.AttrMask)
	qe.Mrsigner = append([]byte(nil), p.QE.MrSigner[:]...)
	qe.ProdID = int(p.QE.IsvProdID)
	nq := 1 + r.Draw(4)
	mq := r.Draw(nq)
	for i := 0; i < nq; i++ {
		switch {
		case i < mq:
			qe.Levels = append(qe.Levels, QELevel{uint32(p.QE.IsvSvn) + 1 + uint32(r.Draw(int(65535-p.QE.IsvSvn))), Statuses[r.Draw(len(Statuses))], ""})
		case i == mq:
			v := uint32(r.Draw(int(p.QE.IsvSvn) + 1))
			if r.Bool() {
				v = uint32(p.QE.IsvSvn)
			}
			qe.Levels = append(qe.Levels, QELevel{v, "UpToDate", ""})
		default:
			qe.Levels = append(qe.Levels, QELevel{uint32(r.Draw(int(p.QE.IsvSvn) + 1)), Statuses[r.Draw(len(Statuses))], ""})
		}
	}
	for i := range qe.Levels {
		qe.Levels[i].Date = RandTcbDate(r)
	}
	if w.FutureFields {
		qe.Future = `,"tcbRecoveryWindowDays":30`
	}
	w.QE = qe

	// CRLs listing only unrelated serials
	w.PckCrl = CRLSpec{This: w.Epoch.Add(-5 * day), Next: w.Epoch.Add(25 * day), Number: int64(1 + r.Draw(1000))}
	w.RootCrl = CRLSpec{This: w.Epoch.Add(-6 * day), Next: w.Epoch.Add(300 * day), Number: int64(1 + r.Draw(1000))}
	for i, n := 0, r.Draw(4); i < n; i++ {
		w.PckCrl.Revoked = append(w.PckCrl.Revoked, randSerial(r))
	}
	for i, n := 0, r.Draw(3); i < n; i++ {
		w.RootCrl.Revoked = append(w.RootCrl.Revoked, randSerial(r))
	}
	if r.Chance(1, 3) {
		// serial numbers are unique per issuer only: the Root CA CRL may list a certificate (issued by
		// the root) that shares its serial number with the PCK leaf (issued by the intermediate), and
		// the PCK CRL one that shares it with the intermediate or a TCB signer (issued by the root)
		w.RootCrl.Revoked = append(w.RootCrl.Revoked, w.P.PCKSp.Serial)
		w.PckCrl.Revoked = append(w.PckCrl.Revoked, w.CA.X.SerialNumber, w.A.Tcb.X.SerialNumber)
		w.SerialCoincidence = true
	}
}

// levelAtOrBelow draws a level that the platform satisfies in every comparison.
func (w *World) levelAtOrBelow(r Rand) TcbLevel {
	p := w.P
	var l TcbLevel
	rb := r.Bytes(32)
	for j := 0; j < 16; j++ {
		l.Sgx[j] = byte(int(rb[j]) % (int(p.Ext.Comp[j]) + 1))
		l.Tdx[j] = byte(int(rb[16+j]) % (int(p.Tee[j]) + 1))
	}
	l.Pce = uint16(r.Draw(int(p.Ext.PCESVN) + 1))
	return l
}

func and(a, b []byte) []byte {
	out := make([]byte, len(a))
	for i := range a {
		out[i] = a[i] & b[i]
	}
	return out
}

// ChainPEM is the certification data of the quote: leaf || intermediate || root.
func ChainPEM(leaf, inter, root *Cert, nul bool) []byte {
	b := append(append(append([]byte(nil), leaf.PEM()...), inter.PEM()...), root.PEM()...)
	if nul {
		b = append(b, 0)
	}
	return b
}

// Build issues the PCK certificate, signs the quote and publishes the collateral
// from the current specs.  Call it again after editing a spec.
func (w *World) Build(trailingNul bool) {
	p := w.P
	p.PCKSp.ExtraExt[0].Value = p.Ext.DER()
	p.PCK = Issue(p.PCKSp, p.PCKKey, w.CA, w.CAKey)
	q := w.Quote
	q.Chain = ChainPEM(p.PCK, w.CA, w.RootInQuote, trailingNul)
	copy(q.AK[:], p.AK.Pub64())
	q.BindAK()
	q.SignBody(p.AK)
	q.SignQE(p.PCKKey)
	if !w.Cfg.NoPCS {
		w.Publish()
	}
}

// Publish (re)creates the simulated PCS from the documents and CRL specs.
func (w *World) Publish() {
	s := NewPCS()
	if w.NetLat > 0 {
		s.Latency = LatencyProfile(w.NetLat)
	}
	s.Tcb[strings.ToLower(hex.EncodeToString(w.P.Ext.FMSPC[:]))] = &Endpoint{
		Hdr:  map[string][]string{HdrTcbInfo: {IssuerChainHeaderEsc(w.HdrEsc, w.TcbSignerInTcb, w.RootInTcb)}},
		Body: SignedBody("tcbInfo", w.Tcb.JSON(), w.TcbSignerInTcb.Key)}
	s.QE = &Endpoint{
		Hdr:  map[string][]string{HdrQE: {IssuerChainHeaderEsc(w.HdrEsc, w.TcbSignerInQE, w.RootInQE)}},
		Body: SignedBody("enclaveIdentity", w.QE.JSON(), w.TcbSignerInQE.Key)}
	w.PckCrlDER = MakeCRL(w.PckCrl, w.CA, w.CAKey)
	w.RootCrlDER = MakeCRL(w.RootCrl, w.A.Root, w.A.RootKey)
	s.PckCrl[w.CAID] = &Endpoint{Hdr: map[string][]string{HdrPckCrl: {IssuerChainHeaderEsc(w.HdrEsc, w.CAInCrl, w.RootInCrl)}}, Body: w.PckCrlDER}
	for _, u := range w.RootInQE.X.CRLDistributionPoints {
		s.ByURL[u] = &Endpoint{Body: w.RootCrlDER}
	}
	// a real response carries unrelated headers as well
	for _, ep := range []*Endpoint{s.QE, s.PckCrl[w.CAID]} {
		ep.Hdr["Content-Type"] = []string{"application/json"}
		ep.Hdr["Request-Id"] = []string{"a1b2c3d4e5f6"}
	}
	for _, k := range []string{strings.ToLower(hex.EncodeToString(w.P.Ext.FMSPC[:]))} {
		s.Tcb[k].Hdr["Content-Type"] = []string{"application/json"}
		s.Tcb[k].Hdr["Warning"] = []string{}
	}
	for _, u := range w.RootInQE.X.CRLDistributionPoints {
		s.ByURL[u].Hdr = map[string][]string{"Content-Type": {"application/pkix-crl"}}
	}
	w.PCS = s
}

// Serials of the certificates revocation is about.
func (w *World) LeafSerial() *big.Int  { return w.P.PCK.X.SerialNumber }
func (w *World) InterSerial() *big.Int { return w.CA.X.SerialNumber }
func (w *World) TcbSignerSerial() *big.Int {
	return w.A.Tcb.X.SerialNumber
}

// Describe gives a short human-readable summary for traces and samples.
func (w *World) Describe() string {
	mod := "off"
	if w.P.Tee[1] != 0 {
		mod = fmt.Sprintf("v%d(level %d)", w.P.Tee[1], w.ModLevelIdx)
	}
	nl := 0
	if w.Tcb != nil {
		nl = len(w.Tcb.Levels)
	}
	return fmt.Sprintf("epoch=%s ca=%s auth=%d extra=%d chain=%d levels=%d match=%d module=%s coincide=%d aki=%d netlat=%d future=%v", w.Epoch.Format("2006-01-02"), w.CAID, len(w.Quote.Auth), len(w.Quote.Extra), len(w.Quote.Chain), nl, w.LevelIdx, mod, w.Coincide, w.AKI, w.NetLat, w.FutureFields)
}
